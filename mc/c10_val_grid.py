"""C10 validators for grid worlds (NumPy, written from docs/environments/*.md and the generator docstrings).

Every validator takes ONE instance (NumPy pytree), the size parameters of the task and a context and
returns a list of (what-fails, message); an empty list means well-formed.  Only what the generator /
docs / the C10 statement advertise is demanded.
"""
from __future__ import annotations

from collections import deque
from typing import Any, Dict, List, Sequence, Tuple

from mc import boot  # noqa: F401

import numpy as np

Problem = Tuple[str, str]
N4 = ((-1, 0), (0, 1), (1, 0), (0, -1))


def flood(free: np.ndarray, start: Tuple[int, int]) -> np.ndarray:
    """4-connected component of `start` inside the boolean mask `free`."""
    seen = np.zeros_like(free, bool)
    if not free[start]:
        return seen
    R, C = free.shape
    seen[start] = True
    dq = deque([start])
    while dq:
        r, c = dq.popleft()
        for dr, dc in N4:
            rr, cc = r + dr, c + dc
            if 0 <= rr < R and 0 <= cc < C and free[rr, cc] and not seen[rr, cc]:
                seen[rr, cc] = True
                dq.append((rr, cc))
    return seen


def all_connected(free: np.ndarray) -> bool:
    idx = np.argwhere(free)
    if len(idx) == 0:
        return True
    return bool(flood(free, tuple(idx[0])).sum() == free.sum())


def _scalar(x: Any) -> int:
    return int(np.asarray(x).reshape(-1)[0]) if np.asarray(x).size == 1 else int(x)


# ------------------------------------------------------------------------------------------------ maze
def v_maze(inst: Any, p: Dict[str, Any], ctx: Dict[str, Any]) -> List[Problem]:
    """docs/maze.md + statement: walls bool (rows, cols); all free cells mutually reachable; agent start,
    target and the origin cell (0,0) free; start != target."""
    out: List[Problem] = []
    R, C = p["rows"], p["cols"]
    walls = np.asarray(inst.walls)
    if walls.shape != (R, C) or walls.dtype != np.bool_:
        return [("walls-shape-or-dtype", f"walls has shape {walls.shape} dtype {walls.dtype}, expected ({R},{C}) bool")]
    free = ~walls
    a = (_scalar(inst.agent_position.row), _scalar(inst.agent_position.col))
    t = (_scalar(inst.target_position.row), _scalar(inst.target_position.col))
    for nm, pos in (("agent", a), ("target", t)):
        if not (0 <= pos[0] < R and 0 <= pos[1] < C):
            out.append((f"{nm}-outside-maze", f"{nm} position {pos} outside the {R}x{C} maze"))
        elif walls[pos]:
            out.append((f"{nm}-on-wall", f"{nm} position {pos} is a wall cell"))
    if a == t:
        out.append(("start-equals-target", f"agent and target are both at {a}"))
    if walls[0, 0]:
        out.append(("origin-is-wall", "cell (0,0) is a wall"))
    if not all_connected(free):
        comp = flood(free, tuple(np.argwhere(free)[0]))
        out.append(("free-cells-not-connected",
                    f"{int(free.sum() - comp.sum())} of {int(free.sum())} free cells cannot be reached from "
                    f"{tuple(int(v) for v in np.argwhere(free)[0])}; walls={walls.astype(int).tolist()}"))
    if _scalar(inst.step_count) != 0:
        out.append(("step-count-not-zero", f"step_count={_scalar(inst.step_count)}"))
    ctx["count"]["maze_free_cells"] += int(free.sum())
    ctx["count"]["maze_wall_cells"] += int(walls.sum())
    return out


def v_maze_walls(inst: Any, p: Dict[str, Any], ctx: Dict[str, Any]) -> List[Problem]:
    """maze_generation.generate_maze(width, height, key): array of shape (height, width), EMPTY=0 / WALL=1;
    recursive division: every free cell reachable from every other one, origin free."""
    R, C = p["rows"], p["cols"]
    m = np.asarray(inst)
    if m.shape != (R, C) or not np.isin(m, (0, 1)).all():
        return [("maze-shape-or-values", f"maze has shape {m.shape} values {np.unique(m).tolist()}, expected ({R},{C}) of 0/1")]
    out: List[Problem] = []
    free = m == 0
    if not free[0, 0]:
        out.append(("origin-is-wall", "cell (0,0) is a wall"))
    if not all_connected(free):
        comp = flood(free, tuple(np.argwhere(free)[0]))
        out.append(("free-cells-not-connected",
                    f"{int(free.sum() - comp.sum())} of {int(free.sum())} free cells are sealed off; maze={m.tolist()}"))
    ctx["count"]["maze_free_cells"] += int(free.sum())
    ctx["count"]["maze_wall_cells"] += int((~free).sum())
    return out


def v_cleaner(inst: Any, p: Dict[str, Any], ctx: Dict[str, Any]) -> List[Problem]:
    """docs/cleaner.md: recursive-division maze, cells dirty(0)/clean(1)/wall(2); all agents start in the top
    left corner, which is clean; everything else is dirty or wall; the non-wall cells are one region."""
    out: List[Problem] = []
    R, C, A = p["rows"], p["cols"], p["agents"]
    grid = np.asarray(inst.grid)
    if grid.shape != (R, C):
        return [("grid-shape", f"grid has shape {grid.shape}, expected ({R},{C})")]
    loc = np.asarray(inst.agents_locations)
    if loc.shape != (A, 2):
        out.append(("agents-shape", f"agents_locations has shape {loc.shape}, expected ({A},2)"))
    elif (loc != 0).any():
        out.append(("agent-not-at-origin", f"agents_locations={loc.tolist()}, docs: agents always start in the top left corner"))
    if not np.isin(grid, (0, 1, 2)).all():
        out.append(("grid-value-unknown", f"grid contains values {np.unique(grid).tolist()}"))
    if grid[0, 0] == 2:
        out.append(("origin-is-wall", "cell (0,0) is a wall"))
    elif grid[0, 0] != 1:
        out.append(("origin-not-clean", f"cell (0,0) holds {int(grid[0, 0])}, expected CLEAN=1"))
    rest = grid.copy()
    rest[0, 0] = 0
    if (rest == 1).any():
        out.append(("clean-cell-besides-origin", f"clean cells at {np.argwhere(rest == 1).tolist()[:4]}"))
    free = grid != 2
    if not all_connected(free):
        out.append(("free-cells-not-connected", f"non-wall cells are not one region; grid={grid.tolist()}"))
    if _scalar(inst.step_count) != 0:
        out.append(("step-count-not-zero", f"step_count={_scalar(inst.step_count)}"))
    ctx["count"]["cleaner_dirty_cells"] += int((grid == 0).sum())
    ctx["count"]["cleaner_wall_cells"] += int((grid == 2).sum())
    return out


# ------------------------------------------------------------------------------------------- connector
def _connector_structure(agents: Any, grid: np.ndarray, n: int, A: int, check_position: bool) -> Tuple[List[Problem], bool]:
    """Heads/targets in bounds and distinct, grid encoding consistent (docs: head 2+3i, target 3+3i)."""
    out: List[Problem] = []
    start, target, pos, ids = (np.asarray(agents.start), np.asarray(agents.target), np.asarray(agents.position),
                               np.asarray(agents.id))
    if start.shape != (A, 2) or target.shape != (A, 2) or grid.shape != (n, n):
        return [("shape", f"start {start.shape} target {target.shape} grid {grid.shape}, expected ({A},2),({A},2),({n},{n})")], False
    for nm, arr in (("start", start), ("target", target)):
        bad = (arr < 0) | (arr >= n)
        if bad.any():
            i = int(np.argwhere(bad.any(axis=1))[0, 0])
            out.append(("agent-coordinate-outside-grid",
                        f"agent {i} has {nm} {arr[i].tolist()} outside the {n}x{n} grid "
                        f"(starts={start.tolist()}, targets={target.tolist()})"))
            return out, False
    if not np.array_equal(ids, np.arange(A)):
        out.append(("agent-ids", f"agent ids {ids.tolist()}"))
    cells = [tuple(c) for c in start.tolist()] + [tuple(c) for c in target.tolist()]
    if len(set(cells)) != 2 * A:
        out.append(("heads-and-targets-not-distinct", f"starts={start.tolist()} targets={target.tolist()}"))
    if check_position and not np.array_equal(pos, start):
        out.append(("position-differs-from-start", f"position={pos.tolist()} start={start.tolist()}"))
    want = np.zeros((n, n), np.int64)
    for i in range(A):
        want[tuple(start[i])] = 2 + 3 * i
    for i in range(A):
        want[tuple(target[i])] = 3 + 3 * i
    if len(set(cells)) == 2 * A and not np.array_equal(grid, want):
        out.append(("grid-inconsistent-with-agents", f"grid={grid.tolist()} expected {want.tolist()}"))
    return out, len(set(cells)) == 2 * A


def _paths_exist(n: int, starts: Sequence[Tuple[int, int]], targets: Sequence[Tuple[int, int]]) -> bool:
    """Exhaustive search for pairwise disjoint 4-connected paths start_i -> target_i on an n x n grid whose
    only obstacles are the other agents' heads/targets and the paths themselves (tiny boards only)."""
    A = len(starts)
    blocked0 = set(starts) | set(targets)

    def reach(blocked: set, s: Tuple[int, int], t: Tuple[int, int]) -> bool:
        seen = {s}
        dq = deque([s])
        while dq:
            r, c = dq.popleft()
            for dr, dc in N4:
                q = (r + dr, c + dc)
                if q == t:
                    return True
                if 0 <= q[0] < n and 0 <= q[1] < n and q not in blocked and q not in seen:
                    seen.add(q)
                    dq.append(q)
        return False

    def solve(i: int, blocked: set) -> bool:
        s, t = starts[i], targets[i]
        if i == A - 1:
            return reach(blocked, s, t)
        # enumerate every simple path of agent i
        stack = [(s, frozenset())]
        while stack:
            cur, used = stack.pop()
            for dr, dc in N4:
                q = (cur[0] + dr, cur[1] + dc)
                if q == t:
                    if solve(i + 1, blocked | used):
                        return True
                    continue
                if 0 <= q[0] < n and 0 <= q[1] < n and q not in blocked and q not in used:
                    stack.append((q, used | {q}))
        return False

    return solve(0, set(blocked0))


def v_connector_uniform(inst: Any, p: Dict[str, Any], ctx: Dict[str, Any]) -> List[Problem]:
    """UniformRandomGenerator: 'places start and target positions uniformly at random' ('may or may not
    be solvable'), start and target positions cannot overlap."""
    n, A = p["grid"], p["agents"]
    out, _ = _connector_structure(inst.agents, np.asarray(inst.grid), n, A, True)
    if _scalar(inst.step_count) != 0:
        out.append(("step-count-not-zero", f"step_count={_scalar(inst.step_count)}"))
    return out


def _agents_equal(a: Any, b: Any) -> bool:
    return all(np.array_equal(np.asarray(getattr(a, f)), np.asarray(getattr(b, f))) for f in ("id", "start", "target", "position"))


def _blocked_starts(solved: np.ndarray, start: np.ndarray) -> List[int]:
    """Agents whose start cell has no 4-neighbour carrying a cell of their own wire on the solved board.
    A healthy random walk always leaves the first-move cell (path / target code of the agent) next to the
    start, so this identifies the agents whose start was boxed in when it was placed (defect #9)."""
    n = solved.shape[0]
    out = []
    for i in range(len(start)):
        r, c = int(start[i, 0]), int(start[i, 1])
        own = False
        for dr, dc in N4:
            rr, cc = r + dr, c + dc
            if 0 <= rr < n and 0 <= cc < n and 1 + 3 * i <= solved[rr, cc] <= 3 + 3 * i:
                own = True
        if not own:
            out.append(i)
    return out


def v_connector_walk(inst: Any, p: Dict[str, Any], ctx: Dict[str, Any]) -> List[Problem]:
    """RandomWalkGenerator: 'grids that are guaranteed be solvable ... performs a random walk from each
    [start]. Targets are placed at their terminuses'; generate_board returns 'solved board, the agents and an
    empty training board'.
    * every size: heads/targets in the grid on distinct cells, grid encoding consistent;
    * every size: the solved board of generate_board (verified to describe the same agents and training
      board as __call__) carries, for each agent, a 4-connected path of that agent's own cells (path 1+3i,
      head 2+3i, target 3+3i) from start to target - pairwise disjoint by the encoding, i.e. a witness of
      solvability;
    * tiny boards (grid <= 4, <= 3 agents): independent exhaustive search for pairwise disjoint paths.
    Boards on which an agent's start was boxed in (no free neighbour for the first move) are the known
    defect #9; all its symptoms (target left at (-1, n-1); or the walk continuing from that off-grid
    cell, which detaches the wire from its start and leaves a stray cell at (n-1, n-1)) are reported under
    ONE signature, `agent-coordinate-outside-grid`, and nothing else is reported for such a board."""
    n, A = p["grid"], p["agents"]
    st, board = inst["state"], inst["board"]
    solved = np.asarray(board["solved_grid"])
    start = np.asarray(st.agents.start)
    # --- defect #9 diagnosis first (its consequences would otherwise surface under several names)
    tgt = np.asarray(st.agents.target)
    off = ((tgt < 0) | (tgt >= n) | (start < 0) | (start >= n)).any(axis=1) if tgt.shape == (A, 2) == start.shape else None
    if off is not None and solved.shape == (n, n) and not ((start < 0) | (start >= n)).any():
        blocked = _blocked_starts(solved, start)
        if blocked or off.any():
            ctx["count"]["connector_boards_with_blocked_start"] += 1
            i = blocked[0] if blocked else int(np.nonzero(off)[0][0])
            if off.any():
                j = int(np.nonzero(off)[0][0])
                ctx["count"]["connector_blocked_start_target_left_off_grid"] += 1
                sym = f"agent {j} has target {tgt[j].tolist()} outside the {n}x{n} grid"
            else:
                ctx["count"]["connector_blocked_start_walk_continued_from_off_grid"] += 1
                sym = (f"agent {i}'s walk went on from the off-grid cell (-1,{n - 1}): its target {tgt[i].tolist()} is not "
                       f"joined to its start by its own wire")
            return [("agent-coordinate-outside-grid",
                     f"start {start[i].tolist()} of agent {i} had no free neighbour for the first move "
                     f"(first move = flat index -1 = cell (-1,{n - 1})); {sym} "
                     f"(starts={start.tolist()}, targets={tgt.tolist()}, solved board={solved.tolist()})")]
    out, ok = _connector_structure(st.agents, np.asarray(st.grid), n, A, True)
    if any(w == "agent-coordinate-outside-grid" for w, _ in out):
        ctx["count"]["connector_boards_with_blocked_start"] += 1
        return out
    if _scalar(st.step_count) != 0:
        out.append(("step-count-not-zero", f"step_count={_scalar(st.step_count)}"))
    # --- pairing of __call__ with generate_board
    if not (_agents_equal(st.agents, board["agents"]) and np.array_equal(np.asarray(st.grid), np.asarray(board["grid"]))):
        out.append(("call-disagrees-with-generate-board",
                    "generator(key) and generate_board(split(key)[1]) describe different agents / training boards"))
        return out
    ctx["count"]["extra_evaluations"] += 1
    if solved.shape != (n, n) or solved.min() < 0 or solved.max() > 3 * A:
        out.append(("solved-board-unknown-code", f"solved board shape {solved.shape} codes {np.unique(solved).tolist()[:12]}"))
        return out
    target = np.asarray(st.agents.target)
    for i in range(A):
        mine = (solved >= 1 + 3 * i) & (solved <= 3 + 3 * i)
        s, t = tuple(start[i]), tuple(target[i])
        heads = np.argwhere(solved == 2 + 3 * i).tolist()
        tars = np.argwhere(solved == 3 + 3 * i).tolist()
        if heads != [list(s)] or tars != [list(t)]:
            out.append(("solved-board-endpoints-differ-from-agents",
                        f"agent {i}: head cells {heads} target cells {tars} but start={list(s)} target={list(t)}; solved={solved.tolist()}"))
        elif not flood(mine, s)[t]:
            out.append(("solved-board-has-no-path-for-agent",
                        f"agent {i}: its cells do not connect start {list(s)} to target {list(t)}; solved={solved.tolist()}"))
        ctx["count"]["connector_path_cells"] += max(0, int(mine.sum()) - 2)
    if ok and n <= 4 and A <= 3:
        starts = [tuple(c) for c in start.tolist()]
        targets = [tuple(c) for c in target.tolist()]
        ctx["count"]["connector_exhaustive_path_searches"] += 1
        if not _paths_exist(n, starts, targets):
            out.append(("board-not-solvable", f"no pairwise disjoint paths exist: starts={starts} targets={targets}"))
    return out


# ------------------------------------------------------------------------------------------------- lbf
def v_lbf(inst: Any, p: Dict[str, Any], ctx: Dict[str, Any]) -> List[Problem]:
    """RandomGenerator docstring: 'no two food items are adjacent and no food is placed on the grid's edge';
    agents avoid food and each other; levels within bounds: agent 1..max_agent_level, food 1..sum of the
    three lowest agent levels ('in the worst case, 3 agents are needed'), equal to it with force_coop."""
    out: List[Problem] = []
    n, A, F = p["grid"], p["agents"], p["food"]
    ap = np.asarray(inst.agents.position)
    fp = np.asarray(inst.food_items.position)
    al = np.asarray(inst.agents.level)
    fl = np.asarray(inst.food_items.level)
    if ap.shape != (A, 2) or fp.shape != (F, 2):
        return [("shape", f"agent positions {ap.shape}, food positions {fp.shape}")]
    if ((ap < 0) | (ap >= n)).any():
        out.append(("agent-outside-grid", f"agent positions {ap.tolist()} on a {n}x{n} grid"))
    if ((fp < 0) | (fp >= n)).any():
        out.append(("food-outside-grid", f"food positions {fp.tolist()} on a {n}x{n} grid"))
    elif ((fp == 0) | (fp == n - 1)).any():
        out.append(("food-on-edge", f"food positions {fp.tolist()} on a {n}x{n} grid"))
    cells_a = [tuple(c) for c in ap.tolist()]
    cells_f = [tuple(c) for c in fp.tolist()]
    if len(set(cells_a)) != A:
        out.append(("agents-share-a-cell", f"agent positions {ap.tolist()}"))
    if len(set(cells_f)) != F:
        out.append(("food-items-share-a-cell", f"food positions {fp.tolist()}"))
    if set(cells_a) & set(cells_f):
        out.append(("agent-on-food", f"agents {ap.tolist()} food {fp.tolist()}"))
    for i in range(F):
        for j in range(i):
            if abs(fp[i, 0] - fp[j, 0]) + abs(fp[i, 1] - fp[j, 1]) == 1:
                out.append(("food-items-adjacent", f"food {j} at {fp[j].tolist()} and food {i} at {fp[i].tolist()}"))
    if (al < 1).any() or (al > p["max_agent_level"]).any():
        out.append(("agent-level-out-of-range", f"agent levels {al.tolist()}, max_agent_level={p['max_agent_level']}"))
    cap = int(np.sort(al)[:3].sum())
    if (fl < 1).any() or (fl > cap).any():
        out.append(("food-level-out-of-range", f"food levels {fl.tolist()}, agent levels {al.tolist()} (three lowest sum to {cap})"))
    if p["force_coop"] and (fl != cap).any():
        out.append(("force-coop-food-level", f"force_coop: food levels {fl.tolist()} but the three lowest agent levels sum to {cap}"))
    # solvable: every food has four free neighbour cells, so the four strongest agents must suffice
    if (fl > int(np.sort(al)[::-1][:4].sum())).any():
        out.append(("food-level-unreachable", f"food levels {fl.tolist()} exceed what four agents can load (levels {al.tolist()})"))
    if np.asarray(inst.agents.loading).any() or np.asarray(inst.food_items.eaten).any():
        out.append(("initial-flags", "an agent is loading or a food item is already eaten at reset"))
    if not np.array_equal(np.asarray(inst.agents.id), np.arange(A)) or not np.array_equal(np.asarray(inst.food_items.id), np.arange(F)):
        out.append(("entity-ids", "agent/food ids are not 0..n-1"))
    if _scalar(inst.step_count) != 0:
        out.append(("step-count-not-zero", f"step_count={_scalar(inst.step_count)}"))
    return out


# ------------------------------------------------------------------------------------- robot warehouse
def rw_layout(shelf_rows: int, shelf_columns: int, column_height: int) -> Tuple[Tuple[int, int], np.ndarray]:
    """Grid size and shelf-cell mask from the Generator docstring: cluster columns are 2 cells wide and
    separated by one-cell vertical highways, cluster rows are `column_height` tall separated by horizontal
    highways, the last row is the delivery row, and the middle cluster column in front of the goals is left
    open so agents can queue."""
    H = (column_height + 1) * shelf_rows + 2
    W = 3 * shelf_columns + 1
    shelf = np.zeros((H, W), bool)
    for x in range(H):
        for y in range(W):
            highway = (y % 3 == 0) or (x % (column_height + 1) == 0) or (x == H - 1) or (
                x > H - (column_height + 3) and y in (W // 2 - 1, W // 2))
            shelf[x, y] = not highway
    return (H, W), shelf


def v_robot_warehouse(inst: Any, p: Dict[str, Any], ctx: Dict[str, Any]) -> List[Problem]:
    """RandomGenerator: 'places agents at starting positions on the grid and selects the requested shelves
    uniformly at random'.  Agents on distinct in-grid cells, shelves one per shelf cell, request queue =
    distinct existing shelf ids flagged as requested, grid channels (0 shelves, 1 agents; id+1) consistent."""
    out: List[Problem] = []
    (H, W), shelf_mask = rw_layout(p["shelf_rows"], p["shelf_columns"], p["column_height"])
    A, Q = p["agents"], p["queue"]
    grid = np.asarray(inst.grid)
    if grid.shape != (2, H, W):
        return [("grid-shape", f"grid has shape {grid.shape}, expected (2,{H},{W})")]
    ax, ay = np.asarray(inst.agents.position.x), np.asarray(inst.agents.position.y)
    sx, sy = np.asarray(inst.shelves.position.x), np.asarray(inst.shelves.position.y)
    S = int(shelf_mask.sum())
    if ax.shape != (A,) or sx.shape != (S,):
        return [("entity-count", f"{ax.shape[0]} agents / {sx.shape[0]} shelves, expected {A} / {S}")]
    if (ax < 0).any() or (ax >= H).any() or (ay < 0).any() or (ay >= W).any():
        out.append(("agent-outside-grid", f"agents at {list(zip(ax.tolist(), ay.tolist()))} on a {H}x{W} floor"))
        return out
    cells = list(zip(ax.tolist(), ay.tolist()))
    if len(set(cells)) != A:
        out.append(("agents-share-a-cell", f"agents at {cells}"))
    d = np.asarray(inst.agents.direction)
    if (d < 0).any() or (d > 3).any():
        out.append(("agent-direction", f"directions {d.tolist()}"))
    if np.asarray(inst.agents.is_carrying).any():
        out.append(("agent-carrying-at-reset", f"is_carrying={np.asarray(inst.agents.is_carrying).tolist()}"))
    scells = list(zip(sx.tolist(), sy.tolist()))
    if len(set(scells)) != S or any(not (0 <= x < H and 0 <= y < W and shelf_mask[x, y]) for x, y in scells):
        out.append(("shelf-not-on-shelf-cell", f"shelves at {scells[:8]}..."))
    q = np.asarray(inst.request_queue)
    if q.shape != (Q,) or (q < 0).any() or (q >= S).any() or len(set(q.tolist())) != Q:
        out.append(("request-queue-invalid", f"request_queue={q.tolist()} with {S} shelves"))
    else:
        req = np.asarray(inst.shelves.is_requested).astype(bool)
        want = np.zeros(S, bool)
        want[q] = True
        if not np.array_equal(req, want):
            out.append(("requested-flags-differ-from-queue", f"queue={q.tolist()} flagged={np.nonzero(req)[0].tolist()}"))
    want_a = np.zeros((H, W), np.int64)
    for i, (x, y) in enumerate(cells):
        want_a[x, y] = i + 1
    want_s = np.zeros((H, W), np.int64)
    for i, (x, y) in enumerate(scells):
        if 0 <= x < H and 0 <= y < W:
            want_s[x, y] = i + 1
    if len(set(cells)) == A and not np.array_equal(grid[1], want_a):
        out.append(("agent-channel-inconsistent", f"agents at {cells} but channel 1 non-zero at {np.argwhere(grid[1]).tolist()}"))
    if not np.array_equal(grid[0], want_s):
        out.append(("shelf-channel-inconsistent", "channel 0 does not hold shelf id+1 at every shelf position"))
    if _scalar(inst.step_count) != 0:
        out.append(("step-count-not-zero", f"step_count={_scalar(inst.step_count)}"))
    return out


# --------------------------------------------------------------------------------- snake / 2048 / tetris
def v_snake(inst: Any, p: Dict[str, Any], ctx: Dict[str, Any]) -> List[Problem]:
    """Snake.reset: the snake has length 1; head and fruit on distinct in-bounds cells."""
    out: List[Problem] = []
    R, C = p["rows"], p["cols"]
    st = inst["state"]
    h = (_scalar(st.head_position.row), _scalar(st.head_position.col))
    f = (_scalar(st.fruit_position.row), _scalar(st.fruit_position.col))
    body = np.asarray(st.body)
    if body.shape != (R, C):
        return [("board-shape", f"body has shape {body.shape}")]
    for nm, q in (("head", h), ("fruit", f)):
        if not (0 <= q[0] < R and 0 <= q[1] < C):
            out.append((f"{nm}-outside-board", f"{nm} at {q} on a {R}x{C} board"))
    if h == f:
        out.append(("fruit-on-head", f"head and fruit both at {h}"))
    if _scalar(st.length) != 1:
        out.append(("length-not-one", f"length={_scalar(st.length)}"))
    if not out:
        want = np.zeros((R, C), bool)
        want[h] = True
        if not np.array_equal(body, want) or not np.array_equal(np.asarray(st.tail), want) or not np.array_equal(
                np.asarray(st.body_state), want.astype(np.asarray(st.body_state).dtype)):
            out.append(("body-differs-from-head", f"head at {h} but body cells {np.argwhere(body).tolist()}"))
    if _scalar(st.step_count) != 0:
        out.append(("step-count-not-zero", f"step_count={_scalar(st.step_count)}"))
    return out


def v_game_2048(inst: Any, p: Dict[str, Any], ctx: Dict[str, Any]) -> List[Problem]:
    """docs/game_2048.md, _generate_board: an empty board with one random cell of value 1 or 2 (exponent)."""
    out: List[Problem] = []
    n = p["size"]
    b = np.asarray(inst["state"].board)
    if b.shape != (n, n):
        return [("board-shape", f"board has shape {b.shape}")]
    nz = b[b != 0]
    if len(nz) != 1 or nz[0] not in (1, 2):
        out.append(("initial-board-not-one-tile", f"board={b.tolist()}"))
    if not np.array_equal(np.asarray(inst["observation"].board), b):
        out.append(("observation-differs-from-state", "reset observation board differs from the state board"))
    if _scalar(inst["state"].step_count) != 0 or float(np.asarray(inst["state"].score)) != 0.0:
        out.append(("step-count-or-score-not-zero", "step_count/score not zero at reset"))
    ctx["count"][f"game2048_tile_{int(nz[0]) if len(nz) == 1 else 'x'}"] += 1
    return out


def v_tetris(inst: Any, p: Dict[str, Any], ctx: Dict[str, Any]) -> List[Problem]:
    """Tetris.reset: empty grid, tetromino index in 0..6, the shown tetromino is a 4x4 piece of 4 cells."""
    out: List[Problem] = []
    st, obs = inst["state"], inst["observation"]
    if np.asarray(st.grid_padded).any():
        out.append(("grid-not-empty", "grid_padded has filled cells at reset"))
    g = np.asarray(obs.grid)
    if g.shape != (p["rows"], p["cols"]) or g.any():
        out.append(("observed-grid", f"observed grid shape {g.shape} / non-empty"))
    ti = _scalar(st.tetromino_index)
    if not 0 <= ti <= 6:
        out.append(("tetromino-index-out-of-range", f"tetromino_index={ti}"))
    t = np.asarray(obs.tetromino)
    if t.shape != (4, 4) or int((t != 0).sum()) != 4:
        out.append(("tetromino-not-four-cells", f"tetromino={t.tolist()}"))
    if _scalar(st.step_count) != 0:
        out.append(("step-count-not-zero", f"step_count={_scalar(st.step_count)}"))
    ctx["count"][f"tetris_piece_{ti}"] += 1
    return out


# ---------------------------------------------------------------------------------------------- sokoban
def _sokoban_solvable(fixed: np.ndarray, boxes: frozenset, agent: Tuple[int, int], cap: int = 300_000) -> Any:
    """Plain BFS over (agent, boxes) with the documented push rules; True / False / None (cap hit)."""
    targets = frozenset(map(tuple, np.argwhere(fixed == 2).tolist()))
    R, C = fixed.shape
    start = (agent, boxes)
    seen = {start}
    dq = deque([start])
    while dq:
        a, bx = dq.popleft()
        if bx == targets:
            return True
        for dr, dc in N4:
            q = (a[0] + dr, a[1] + dc)
            if not (0 <= q[0] < R and 0 <= q[1] < C) or fixed[q] == 1:
                continue
            nb = bx
            if q in bx:
                q2 = (q[0] + dr, q[1] + dc)
                if not (0 <= q2[0] < R and 0 <= q2[1] < C) or fixed[q2] == 1 or q2 in bx:
                    continue
                nb = (bx - {q}) | {q2}
            s = (q, nb)
            if s not in seen:
                seen.add(s)
                dq.append(s)
                if len(seen) > cap:
                    return None
    return False


def v_sokoban(inst: Any, p: Dict[str, Any], ctx: Dict[str, Any]) -> List[Problem]:
    """docs/sokoban.md: 10x10 level, four boxes, four targets, one agent; everything enclosed by walls.
    SimpleSolveGenerator ('a trivial Boxoban problem') is additionally solved by BFS."""
    out: List[Problem] = []
    fixed, var = np.asarray(inst.fixed_grid), np.asarray(inst.variable_grid)
    if fixed.shape != (10, 10) or var.shape != (10, 10):
        return [("grid-shape", f"fixed {fixed.shape} variable {var.shape}")]
    if not np.isin(fixed, (0, 1, 2)).all() or not np.isin(var, (0, 3, 4)).all():
        out.append(("unknown-encoding", f"fixed values {np.unique(fixed).tolist()} variable values {np.unique(var).tolist()}"))
    boxes = np.argwhere(var == 4)
    targets = np.argwhere(fixed == 2)
    agents = np.argwhere(var == 3)
    if len(boxes) != 4 or len(targets) != 4 or len(agents) != 1:
        out.append(("entity-count", f"{len(boxes)} boxes, {len(targets)} targets, {len(agents)} agents"))
        return out
    loc = tuple(int(v) for v in np.asarray(inst.agent_location))
    if loc != tuple(agents[0]):
        out.append(("agent-location-differs-from-grid", f"agent_location={loc} but the grid has the agent at {agents[0].tolist()}"))
    if (fixed[var != 0] == 1).any():
        out.append(("movable-object-on-wall", "a box or the agent stands on a wall cell"))
    region = flood(fixed != 1, tuple(agents[0]))
    edge = region.copy()
    edge[1:-1, 1:-1] = False
    if edge.any():
        out.append(("level-not-enclosed-by-walls", f"the agent's region touches the border at {np.argwhere(edge).tolist()[:3]}"))
    for nm, arr in (("box", boxes), ("target", targets)):
        if not all(region[tuple(c)] for c in arr):
            out.append((f"{nm}-outside-agent-region", f"{nm} cells {arr.tolist()} not all inside the walled region of the agent"))
    if _scalar(inst.step_count) != 0:
        out.append(("step-count-not-zero", f"step_count={_scalar(inst.step_count)}"))
    if p.get("solve") and not out:
        key = (fixed.tobytes(), var.tobytes())
        cache = ctx["cache"].setdefault("sokoban", {})
        if key not in cache:
            cache[key] = _sokoban_solvable(fixed, frozenset(map(tuple, boxes.tolist())), tuple(agents[0]))
            ctx["count"]["sokoban_levels_solved_by_bfs"] += int(cache[key] is True)
        if cache[key] is False:
            out.append(("level-not-solvable", "BFS over all push sequences finds no solution"))
    return out


# ---------------------------------------------------------------------------------------------- pac man
def v_pac_man(inst: Any, p: Dict[str, Any], ctx: Dict[str, Any]) -> List[Problem]:
    """AsciiGenerator(DEFAULT_MAZE): grid = non-'X' cells of the diagram; player ('P') and ghost ('G') start
    cells free; pellet count equals the number of pellet locations, which are distinct free cells.
    Ghost/pellet/power-up locations are stored (col, row); the player Position has x=row, y=col."""
    out: List[Problem] = []
    st = inst["state"] if isinstance(inst, dict) else inst
    maze: List[str] = ctx["cache"].get("pacman_maze") or p["maze"]
    want = np.array([[0 if ch == "X" else 1 for ch in rowtxt] for rowtxt in maze])
    grid = np.asarray(st.grid)
    if grid.shape != want.shape:
        return [("grid-shape", f"grid {grid.shape}, diagram {want.shape}")]
    if not np.array_equal(grid, want):
        out.append(("grid-differs-from-diagram", f"{int((grid != want).sum())} cells differ"))
    R, C = want.shape
    pr, pc = _scalar(st.player_locations.x), _scalar(st.player_locations.y)
    if not (0 <= pr < R and 0 <= pc < C) or want[pr, pc] != 1:
        out.append(("player-start-not-free", f"player at row {pr}, col {pc}"))
    elif maze[pr][pc] != "P":
        out.append(("player-start-differs-from-diagram", f"player at row {pr}, col {pc} where the diagram has {maze[pr][pc]!r}"))
    gl = np.asarray(st.ghost_locations)
    for g in gl.tolist():
        if not (0 <= g[1] < R and 0 <= g[0] < C) or want[g[1], g[0]] != 1:
            out.append(("ghost-start-not-free", f"ghost stored as (col,row)={g}"))
        elif maze[g[1]][g[0]] != "G":
            out.append(("ghost-start-differs-from-diagram", f"ghost (col,row)={g} on {maze[g[1]][g[0]]!r}"))
    if len(gl) != sum(r.count("G") for r in maze):
        out.append(("ghost-count", f"{len(gl)} ghosts, diagram has {sum(r.count('G') for r in maze)}"))
    pel = np.asarray(st.pellet_locations)
    if _scalar(st.pellets) != len(pel):
        out.append(("pellet-count-mismatch", f"pellets={_scalar(st.pellets)} but {len(pel)} pellet locations"))
    cells = {(c[1], c[0]) for c in pel.tolist()}
    if len(cells) != len(pel):
        out.append(("pellet-locations-repeat", f"{len(pel) - len(cells)} repeated pellet locations"))
    if any(not (0 <= r < R and 0 <= c < C) or want[r, c] != 1 for r, c in cells):
        out.append(("pellet-on-wall", "a pellet location is not a free cell"))
    pu = np.asarray(st.power_up_locations)
    if any(not (0 <= c[1] < R and 0 <= c[0] < C) or maze[c[1]][c[0]] != "O" for c in pu.tolist()):
        out.append(("power-up-differs-from-diagram", f"power-ups (col,row)={pu.tolist()}"))
    if _scalar(st.step_count) != 0 or bool(np.asarray(st.dead)):
        out.append(("initial-flags", "step_count != 0 or dead at reset"))
    ctx["count"]["pacman_pellets"] += len(pel)
    return out


# ------------------------------------------------------------------------------------------ minesweeper
def v_minesweeper(inst: Any, p: Dict[str, Any], ctx: Dict[str, Any]) -> List[Problem]:
    """UniformSamplingGenerator: 'sampling a given number of mines (without replacement)'; board all
    unexplored (-1)."""
    out: List[Problem] = []
    R, C, M = p["rows"], p["cols"], p["mines"]
    m = np.asarray(inst.flat_mine_locations)
    if m.shape != (M,):
        out.append(("mine-count", f"{m.shape} mine locations, configured {M}"))
    if ((m < 0) | (m >= R * C)).any():
        out.append(("mine-outside-board", f"flat mine locations {m.tolist()} on a {R}x{C} board"))
    if len(set(m.tolist())) != len(m):
        out.append(("mines-not-distinct", f"flat mine locations {sorted(m.tolist())}"))
    b = np.asarray(inst.board)
    if b.shape != (R, C) or (b != -1).any():
        out.append(("board-not-unexplored", f"board shape {b.shape}, values {np.unique(b).tolist()}"))
    if _scalar(inst.step_count) != 0:
        out.append(("step-count-not-zero", f"step_count={_scalar(inst.step_count)}"))
    return out


# ----------------------------------------------------------------------------------------------- sudoku
def sudoku_conflicts(board: np.ndarray) -> List[str]:
    """board with -1 = empty, 0..8 digits. Repeated digit in a row / column / 3x3 box."""
    bad: List[str] = []
    for i in range(9):
        units = (("row", board[i, :]), ("column", board[:, i]),
                 ("box", board[3 * (i // 3):3 * (i // 3) + 3, 3 * (i % 3):3 * (i % 3) + 3].ravel()))
        for nm, u in units:
            v = u[u >= 0]
            if len(set(v.tolist())) != len(v):
                bad.append(f"{nm} {i}")
    return bad


def sudoku_mask(board: np.ndarray) -> np.ndarray:
    """Legal (row, col, digit): the cell is empty and the digit is absent from its row, column and box."""
    m = np.zeros((9, 9, 9), bool)
    for r in range(9):
        for c in range(9):
            if board[r, c] != -1:
                continue
            used = set(board[r, :].tolist()) | set(board[:, c].tolist()) | set(
                board[3 * (r // 3):3 * (r // 3) + 3, 3 * (c // 3):3 * (c // 3) + 3].ravel().tolist())
            for d in range(9):
                m[r, c, d] = d not in used
    return m


def v_sudoku(inst: Any, p: Dict[str, Any], ctx: Dict[str, Any]) -> List[Problem]:
    out: List[Problem] = []
    b = np.asarray(inst.board)
    if b.shape != (9, 9) or b.min() < -1 or b.max() > 8:
        return [("board-values", f"board shape {b.shape} range [{b.min()},{b.max()}]")]
    bad = sudoku_conflicts(b)
    if bad:
        out.append(("board-has-conflict", f"repeated digit in {bad[:4]}; board={b.tolist()}"))
    am = np.asarray(inst.action_mask)
    key = b.tobytes()
    cache = ctx["cache"].setdefault("sudoku_mask", {})
    if key not in cache:
        cache[key] = sudoku_mask(b)
    if am.shape != (9, 9, 9) or not np.array_equal(am.astype(bool), cache[key]):
        out.append(("action-mask-inconsistent-with-board", f"{int((am.astype(bool) != cache[key]).sum()) if am.shape == (9, 9, 9) else am.shape} mask entries differ"))
    if p.get("database") is not None:
        db = ctx["cache"].get("sudoku_db")
        if db is not None and key not in db:
            out.append(("board-not-in-database", f"board={b.tolist()}"))
    ctx["count"]["sudoku_empty_cells"] += int((b == -1).sum())
    return out


def v_sudoku_db_row(inst: Any, p: Dict[str, Any], ctx: Dict[str, Any]) -> List[Problem]:
    """One raw database board (0 = empty, 1..9 digits)."""
    b = np.asarray(inst)
    if b.shape != (9, 9) or b.min() < 0 or b.max() > 9:
        return [("database-board-values", f"shape {b.shape} range [{b.min()},{b.max()}]")]
    bad = sudoku_conflicts(b.astype(np.int64) - 1)
    if bad:
        return [("database-board-has-conflict", f"repeated digit in {bad[:4]}; board={b.tolist()}")]
    return []


VALIDATORS = {
    "maze": v_maze, "maze_walls": v_maze_walls, "cleaner": v_cleaner, "connector_uniform": v_connector_uniform,
    "connector_walk": v_connector_walk, "lbf": v_lbf,
    "robot_warehouse": v_robot_warehouse, "snake": v_snake, "game_2048": v_game_2048, "tetris": v_tetris,
    "sokoban": v_sokoban, "pac_man": v_pac_man, "minesweeper": v_minesweeper, "sudoku": v_sudoku,
}
