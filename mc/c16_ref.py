"""C16 reference semantics of jumanji specs, in plain NumPy (no call into Spec.validate / __eq__).

A spec is described by a `View` (kind, shape, dtype, name, raw bounds, num_values, children) that is
derived either from the *recipe* the spec was built from (synthetic universe: independent of what the
constructor stored) or from the spec's public attributes (environment specs).

Decisions (conservative readings of the property statement, see mc/checks/c16.py docstring):
* "once converted to JAX arrays": a leaf value is first converted like `jnp.asarray` does with x64
  disabled (float64->float32, int64->int32, uint64->uint32, Python int/float/bool/lists likewise);
  shape, dtype and bounds are judged after that conversion.
* bounds of two BoundedArrays are equal iff they are equal after broadcasting to the (common) shape;
  for size-0 shapes with different raw bounds the relation is left undefined (None).
* nested specs are compared only when they have the same skeleton (child names and child kinds,
  recursively); they are equal iff all children are (own name / constructor not compared).
* one representable step for floats = np.nextafter in the dtype, except that steps which are
  subnormal in float32 are replaced by the smallest normal float32 (XLA:CPU flushes denormals).
"""
from __future__ import annotations

import dataclasses
from typing import Any, Dict, Iterator, List, Optional, Tuple

from mc import boot  # noqa: F401

import numpy as np

LEAF_KINDS = ("Array", "BoundedArray", "DiscreteArray", "MultiDiscreteArray")
DTYPES = ("bool", "int8", "int16", "int32", "uint8", "float16", "float32")
_CANON = {"float64": "float32", "int64": "int32", "uint64": "uint32", "complex128": "complex64"}
TINY32 = float(np.finfo(np.float32).tiny)


def canon_dtype(d: Any) -> np.dtype:
    """What a requested dtype becomes in JAX with 64-bit mode off."""
    dt = np.dtype(d)
    return np.dtype(_CANON.get(dt.name, dt.name))


# ------------------------------------------------------------------------------------------ JSON
def decode(x: Any) -> Any:
    """Inverse of report._jsonable for the numbers we store (inf as strings)."""
    if isinstance(x, list):
        return [decode(v) for v in x]
    if isinstance(x, str) and x in ("inf", "-inf", "nan"):
        return float(x)
    return x


# ------------------------------------------------------------------------------------------ views
@dataclasses.dataclass
class View:
    kind: str
    name: str = ""
    shape: Tuple[int, ...] = ()
    dtype: Optional[np.dtype] = None
    lo: Optional[np.ndarray] = None  # raw minimum (as given), in `dtype`
    hi: Optional[np.ndarray] = None
    num_values: Any = None  # int (Discrete) or int ndarray (MultiDiscrete)
    children: Optional[Dict[str, "View"]] = None

    @property
    def size(self) -> int:
        return int(np.prod(self.shape, dtype=np.int64)) if self.shape else 1

    @property
    def bounded(self) -> bool:
        return self.lo is not None

    @property
    def lo_b(self) -> np.ndarray:
        return np.broadcast_to(self.lo, self.shape)

    @property
    def hi_b(self) -> np.ndarray:
        return np.broadcast_to(self.hi, self.shape)

    def describe(self) -> str:
        if self.kind == "Spec":
            return "Spec{" + ", ".join(f"{k}={v.describe()}" for k, v in self.children.items()) + "}"
        s = f"{self.kind}(shape={self.shape}, dtype={self.dtype.name}, name={self.name!r}"
        if self.kind == "BoundedArray":
            s += f", minimum={np.asarray(self.lo).tolist()}, maximum={np.asarray(self.hi).tolist()}"
        if self.num_values is not None:
            s += f", num_values={np.asarray(self.num_values).tolist()}"
        return s + ")"


def view_from_recipe(r: Dict[str, Any]) -> View:
    t = r["t"]
    if t == "Spec":
        return View("Spec", name=r.get("name", ""), children={k: view_from_recipe(c) for k, c in r["children"].items()})
    dt = canon_dtype(r["dtype"])
    name = r.get("name", "")
    if t == "Array":
        return View("Array", name, tuple(r["shape"]), dt)
    if t == "BoundedArray":
        return View("BoundedArray", name, tuple(r["shape"]), dt, np.array(decode(r["minimum"]), dtype=dt),
                    np.array(decode(r["maximum"]), dtype=dt))
    if t == "DiscreteArray":
        n = int(r["num_values"])
        return View("DiscreteArray", name, (), dt, np.array(0, dtype=dt), np.array(n - 1, dtype=dt), n)
    if t == "MultiDiscreteArray":
        nv = np.array(r["num_values"], dtype=np.int32)
        return View("MultiDiscreteArray", name, tuple(nv.shape), dt, np.zeros(nv.shape, dt), (nv - 1).astype(dt), nv)
    raise ValueError(f"unknown recipe type {t}")


def spec_children(spec: Any) -> Dict[str, Any]:
    """Children of a nested spec through its public surface (attributes that are specs)."""
    from jumanji import specs

    return {k: v for k, v in vars(spec).items() if isinstance(v, specs.Spec) and not k.startswith("_")}


def view_from_spec(spec: Any) -> View:
    """Reads the public attributes of a spec object."""
    from jumanji import specs

    if not isinstance(spec, specs.Array):
        return View("Spec", name=spec.name, children={k: view_from_spec(c) for k, c in spec_children(spec).items()})
    kind = type(spec).__name__
    if kind not in LEAF_KINDS:
        raise ValueError(f"unexpected spec class {kind}")
    dt = np.dtype(spec.dtype)
    v = View(kind, spec.name, tuple(spec.shape), dt)
    if kind != "Array":
        v.lo, v.hi = np.asarray(spec.minimum), np.asarray(spec.maximum)
    if kind == "DiscreteArray":
        v.num_values = int(spec.num_values)
    if kind == "MultiDiscreteArray":
        v.num_values = np.asarray(spec.num_values)
    return v


def view_mismatch(got: View, want: View, path: str = "") -> Optional[Tuple[str, str]]:
    """First attribute in which two views differ *exactly* (raw bounds included) as
    (attribute name, detail), or None."""
    if got.kind != want.kind:
        return "kind", f"{path}kind {got.kind} != {want.kind}"
    if got.kind == "Spec":
        if got.name != want.name:
            return "name", f"{path}name {got.name!r} != {want.name!r}"
        if set(got.children) != set(want.children):
            return "children", f"{path}children {sorted(got.children)} != {sorted(want.children)}"
        for k in want.children:
            m = view_mismatch(got.children[k], want.children[k], f"{path}{k}.")
            if m:
                return k, m[1]
        return None
    if tuple(got.shape) != tuple(want.shape):
        return "shape", f"{path}shape {got.shape} != {want.shape}"
    if got.dtype != want.dtype:
        return "dtype", f"{path}dtype {got.dtype} != {want.dtype}"
    if got.name != want.name:
        return "name", f"{path}name {got.name!r} != {want.name!r}"
    for nm in ("lo", "hi"):
        a, b = getattr(got, nm), getattr(want, nm)
        label = "minimum" if nm == "lo" else "maximum"
        if (a is None) != (b is None):
            return label, f"{path}{label} presence differs"
        if a is not None:
            a, b = np.asarray(a), np.asarray(b)
            if a.shape != b.shape or a.dtype != b.dtype or not np.array_equal(a, b):
                return label, f"{path}{label} {a.tolist()}:{a.dtype} != {b.tolist()}:{b.dtype}"
    if (got.num_values is None) != (want.num_values is None):
        return "num_values", f"{path}num_values presence differs"
    if want.num_values is not None:
        a, b = np.asarray(got.num_values), np.asarray(want.num_values)
        if a.shape != b.shape or not np.array_equal(a, b):
            return "num_values", f"{path}num_values {a.tolist()} != {b.tolist()}"
    return None


# ------------------------------------------------------------------------------------------ equality
def kind_key(v: View) -> Any:
    if v.kind != "Spec":
        return v.kind
    return ("Spec", tuple(sorted((k, kind_key(c)) for k, c in v.children.items())))


def _leaf_key(v: View) -> Tuple:
    if v.kind == "Array":
        return (v.shape, v.dtype.name, v.name)
    if v.kind == "BoundedArray":
        return (v.shape, v.dtype.name, v.name, np.ascontiguousarray(v.lo_b).tobytes(),
                np.ascontiguousarray(v.hi_b).tobytes())
    if v.kind == "DiscreteArray":
        return (int(v.num_values), v.dtype.name, v.name)
    if v.kind == "MultiDiscreteArray":
        nv = np.asarray(v.num_values, dtype=np.int64)
        return (nv.shape, nv.tobytes(), v.dtype.name, v.name)
    raise ValueError(v.kind)


def _raw_key(v: View) -> Tuple:
    return (v.lo.shape, np.ascontiguousarray(v.lo).tobytes(), v.hi.shape, np.ascontiguousarray(v.hi).tobytes())


class EqKey:
    """Pre-computed comparison key of a view (the reference relation is key equality)."""

    __slots__ = ("kind", "key", "raw", "size0", "children")

    def __init__(self, v: View):
        self.kind = v.kind
        if v.kind == "Spec":
            self.children = {k: EqKey(c) for k, c in v.children.items()}
            self.key = self.raw = None
            self.size0 = False
        else:
            self.children = None
            self.key = _leaf_key(v)
            self.size0 = v.kind == "BoundedArray" and v.size == 0
            self.raw = _raw_key(v) if self.size0 else None


def rel(a: EqKey, b: EqKey) -> Optional[bool]:
    """Reference equality of two specs *of the same kind*: True / False / None (undefined)."""
    if a.kind != "Spec":
        if a.key != b.key:
            return False
        if a.size0 and a.raw != b.raw:
            return None  # size-0 shape: bounds differ as attributes but not after broadcasting
        return True
    if set(a.children) != set(b.children):
        raise ValueError("rel() called on nested specs of different kinds")
    out: Optional[bool] = True
    for k in a.children:
        r = rel(a.children[k], b.children[k])
        if r is False:
            return False
        if r is None:
            out = None
    return out


def first_difference(a: View, b: View) -> str:
    """Name of the first public attribute that distinguishes two leaf views (for signatures)."""
    if tuple(a.shape) != tuple(b.shape):
        return "shape"
    if a.dtype != b.dtype:
        return "dtype"
    if a.name != b.name:
        return "name"
    if a.num_values is not None and b.num_values is not None:
        x, y = np.asarray(a.num_values), np.asarray(b.num_values)
        if x.shape != y.shape or not np.array_equal(x, y):
            return "num_values"
    if a.lo is not None and b.lo is not None:
        if not np.array_equal(a.lo_b, b.lo_b):
            return "minimum"
        if not np.array_equal(a.hi_b, b.hi_b):
            return "maximum"
    return "nothing"


# ------------------------------------------------------------------------------------------ membership
def fields_of(value: Any) -> Optional[Dict[str, Any]]:
    """Field dict of a named tuple or of an object with a __dict__; None otherwise."""
    if isinstance(value, tuple) and hasattr(value, "_asdict"):
        return dict(value._asdict())
    if isinstance(value, np.ndarray) or isinstance(value, (bool, int, float, list, tuple, dict, str)) or value is None:
        return None
    if hasattr(value, "__dict__"):
        try:
            return dict(vars(value))
        except TypeError:
            return None
    return None


def to_array(value: Any) -> Optional[np.ndarray]:
    """Model of jnp.asarray(value) (x64 off) for the admissible leaf inputs; None if not array-like."""
    if hasattr(value, "dtype") and hasattr(value, "shape"):
        a = np.asarray(value)
    elif isinstance(value, (bool, int, float, list)):
        a = np.asarray(value)
    else:
        return None
    if a.dtype == object:
        return None
    return a.astype(canon_dtype(a.dtype), copy=False)


def member(v: View, value: Any) -> Tuple[bool, str]:
    """(is member, reason when not)."""
    if v.kind == "Spec":
        f = fields_of(value)
        if f is None:
            return False, "wrong-structure"
        if set(f) != set(v.children):
            return False, "wrong-structure"
        for k, c in v.children.items():
            ok, why = member(c, f[k])
            if not ok:
                return False, why
        return True, ""
    a = to_array(value)
    if a is None:
        return False, "wrong-structure"
    if tuple(a.shape) != tuple(v.shape):
        return False, "wrong-shape"
    if a.dtype != v.dtype:
        return False, "wrong-dtype"
    if v.bounded:
        if bool(np.any(a < v.lo_b)):
            return False, "below-minimum"
        if bool(np.any(a > v.hi_b)):
            return False, "above-maximum"
    return True, ""


# ------------------------------------------------------------------------------------------ value alphabet
def neighbours(x: Any, dt: np.dtype) -> Tuple[Any, Any]:
    """(one representable step below, one above) in dtype `dt`; None where there is none."""
    if dt.kind == "b":
        return (False if bool(x) else None), (True if not bool(x) else None)
    if dt.kind in "iu":
        info = np.iinfo(dt)
        x = int(x)
        return (x - 1 if x > info.min else None), (x + 1 if x < info.max else None)
    if dt.kind == "f":
        x = dt.type(x)
        below = None if x == -np.inf else dt.type(np.nextafter(x, dt.type(-np.inf)))
        above = None if x == np.inf else dt.type(np.nextafter(x, dt.type(np.inf)))
        if below is not None and below != 0 and abs(float(below)) < TINY32:
            below = dt.type(-TINY32) if float(x) <= 0 else dt.type(0.0)
        if above is not None and above != 0 and abs(float(above)) < TINY32:
            above = dt.type(TINY32) if float(x) >= 0 else dt.type(0.0)
        return below, above
    raise ValueError(dt)


def pick_indices(v: View, cap: int) -> List[int]:
    """Flat element indices that get single-element deviations: all of them up to `cap`, otherwise
    the first element of every distinct (minimum, maximum) pair (up to cap) plus first and last."""
    n = v.size
    if n <= cap:
        return list(range(n))
    out: List[int] = [0, n - 1, n // 2]
    if v.bounded:
        lo, hi = v.lo_b.reshape(-1), v.hi_b.reshape(-1)
        seen = set()
        for i in range(n):
            k = (lo[i].item(), hi[i].item())
            if k not in seen:
                seen.add(k)
                out.append(i)
                if len(seen) >= cap:
                    break
    return sorted(set(out))


def _extremes(dt: np.dtype) -> List[Any]:
    if dt.kind == "b":
        return [False, True]
    if dt.kind in "iu":
        info = np.iinfo(dt)
        return [info.min, info.max]
    fi = np.finfo(dt)
    return [fi.min, fi.max, -np.inf, np.inf]


def wrong_shapes(shape: Tuple[int, ...]) -> List[Tuple[int, ...]]:
    s = tuple(shape)
    cands: List[Tuple[int, ...]] = []
    if len(s) == 0:
        cands += [(1,), (2,), (1, 1)]
    else:
        cands += [(), s + (1,), (1,) + s, s[:-1], s[:-1] + (s[-1] + 1,), (1,) * len(s)]
        if s[-1] >= 1:
            cands.append(s[:-1] + (s[-1] - 1,))
        if len(s) >= 2:
            cands += [(int(np.prod(s)),), tuple(reversed(s))]
    out: List[Tuple[int, ...]] = []
    for c in cands:
        if c != s and c not in out:
            out.append(c)
    return out


Case = Tuple[str, str, np.ndarray]  # (tag, form, array); form in {"jnp", "np", "py"}


def leaf_alphabet(v: View, idx_cap: int = 6) -> List[Case]:
    """The finite value alphabet of one leaf spec (generate_value() is added by the caller)."""
    dt, shape = v.dtype, tuple(v.shape)
    out: List[Case] = []
    seen = set()

    def add(tag: str, arr: np.ndarray, form: str = "jnp") -> None:
        arr = np.asarray(arr)
        k = (form, arr.dtype.name, arr.shape, arr.tobytes())
        if k in seen:
            return
        seen.add(k)
        out.append((tag, form, arr))

    idxs = pick_indices(v, idx_cap)
    if v.bounded:
        lo_b, hi_b = np.array(v.lo_b, dtype=dt), np.array(v.hi_b, dtype=dt)
        bases = [("allmin", lo_b), ("allmax", hi_b)]
        for bname, base in bases:
            add(bname, base)
        # every element one step outside (where such a value exists for all elements)
        for nm, src, side in (("all-below-min", lo_b, 0), ("all-above-max", hi_b, 1)):
            flat = src.reshape(-1)
            vals = [neighbours(x, dt)[side] for x in flat]
            if flat.size and all(x is not None for x in vals):
                add(nm, np.array(vals, dtype=dt).reshape(shape))
        for bname, base in bases:
            for i in idxs:
                lo_i, hi_i = lo_b.reshape(-1)[i], hi_b.reshape(-1)[i]
                lo_dn, lo_up = neighbours(lo_i, dt)
                hi_dn, hi_up = neighbours(hi_i, dt)
                for cname, c in (("min", lo_i), ("max", hi_i), ("min+step", lo_up), ("max-step", hi_dn),
                                 ("min-step", lo_dn), ("max+step", hi_up)):
                    if c is None:
                        continue
                    a = base.copy().reshape(-1)
                    a[i] = c
                    add(f"{bname}[{i}]={cname}", a.reshape(shape))
        fill = lo_b.reshape(-1)[0] if lo_b.size else (np.asarray(v.lo).reshape(-1)[0] if np.asarray(v.lo).size else 0)
        base0 = lo_b
    else:
        zeros = np.zeros(shape, dt)
        add("zeros", zeros)
        add("ones", np.ones(shape, dt))
        for x in _extremes(dt):
            add(f"all={x}", np.full(shape, x, dtype=dt))
            for i in idxs[:3]:
                a = zeros.copy().reshape(-1)
                a[i] = x
                add(f"zeros[{i}]={x}", a.reshape(shape))
        fill = dt.type(0)
        base0 = zeros
    # wrong shapes (values inside the bounds where the bound is scalar)
    for ws in wrong_shapes(shape):
        add(f"wrong-shape{ws}", np.full(ws, fill, dtype=dt))
    # wrong dtypes: the in-bounds base value re-typed; 64-bit NumPy inputs convert to 32-bit
    for other in DTYPES + ("int64", "float64"):
        od = np.dtype(other)
        if od == dt:
            continue
        with np.errstate(all="ignore"):
            add(f"as-{other}", np.asarray(base0).astype(od), "np" if other in ("int64", "float64") else "jnp")
    # other admissible input forms of members / near-members: NumPy arrays and Python lists/scalars
    forms_src = [c for c in out if c[1] == "jnp" and c[2].dtype == dt and c[2].shape == shape][:4]
    outside = [c for c in out if c[1] == "jnp" and ("min-step" in c[0] or "max+step" in c[0])][:2]
    for tag, _, arr in forms_src + outside:
        add(tag + ":numpy", arr, "np")
        add(tag + ":python", arr, "py")
    return out


def value_recipe(tag: str, form: str, arr: np.ndarray) -> Dict[str, Any]:
    return {"tag": tag, "form": form, "dtype": arr.dtype.name, "shape": list(arr.shape), "data": arr.tolist()}


def build_leaf_value(r: Dict[str, Any]) -> Any:
    arr = np.array(decode(r["data"]), dtype=np.dtype(r["dtype"])).reshape(tuple(r["shape"]))
    return realise(r["form"], arr)


def realise(form: str, arr: np.ndarray) -> Any:
    if form == "np":
        return arr
    if form == "py":
        return arr.tolist()
    import jax.numpy as jnp

    return jnp.asarray(arr)


# ------------------------------------------------------------------------------------------ finite spaces
def rlen(r: range) -> int:
    """len() of a step-1 range without the C ssize_t limit."""
    return max(0, r.stop - r.start)


def product_size(ranges: List[range]) -> int:
    n = 1
    for r in ranges:
        n *= rlen(r)
    return n


def enumerate_ranges(ranges: List[range], cap: int) -> Tuple[Iterator[Tuple[int, ...]], bool, int]:
    """All tuples of the product if it has at most `cap` elements; otherwise the axis-parallel lines
    through the two corners (each coordinate sweeps its range, truncated to its 64 lowest and 64
    highest values, while the others sit at their minimum / maximum) plus the lexicographically first
    tuples up to `cap`. Returns (iterator, exhaustive, total size of the product)."""
    import itertools

    total = product_size(ranges)
    if total <= cap:
        return itertools.product(*ranges), True, total

    def gen() -> Iterator[Tuple[int, ...]]:
        seen = set()
        n = 0
        lows = tuple(r[0] for r in ranges)
        highs = tuple(r[-1] for r in ranges)
        for corner in (lows, highs):
            for i, r in enumerate(ranges):
                vals = list(r) if rlen(r) <= 128 else list(r[:64]) + list(r[-64:])
                for x in vals:
                    t = corner[:i] + (x,) + corner[i + 1:]
                    if t not in seen:
                        seen.add(t)
                        n += 1
                        yield t
                        if n >= cap:
                            return
        for t in itertools.product(*[r[:cap] for r in ranges]):  # (product() materialises its inputs)
            if t not in seen:
                seen.add(t)
                n += 1
                yield t
                if n >= cap:
                    return

    return gen(), False, total
