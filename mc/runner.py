"""Process pool: one task per (property, model); results merged into a Reporter."""
from __future__ import annotations

import importlib
import multiprocessing as mp
import os
import time
import traceback
from typing import Any, Dict, List, Sequence, Tuple

from mc import boot
from mc.report import Reporter

Task = Tuple[str, str, Dict[str, Any]]  # (module, function, kwargs)


def _work(task: Task) -> Dict[str, Any]:
    mod, fn, kw = task
    t0 = time.time()
    try:
        boot.assert_repo()
        f = getattr(importlib.import_module(mod), fn)
        res = f(**kw)
        res.setdefault("model", kw.get("cfg_name") or kw.get("model") or fn)
        res.setdefault("task_s", round(time.time() - t0, 2))
        try:
            import gc

            import jax

            jax.clear_caches()
            gc.collect()
        except Exception:  # noqa: BLE001
            pass
        return res
    except Exception:  # noqa: BLE001 - reported, never swallowed
        return {
            "model": kw.get("cfg_name") or kw.get("model") or fn,
            "error": traceback.format_exc(limit=12)[-3000:],
            "task_s": round(time.time() - t0, 2),
        }


def _child(conn: Any, task: Task) -> None:
    try:
        conn.send(_work(task))
    finally:
        conn.close()


def n_procs() -> int:
    try:
        n = int(os.environ.get("VERIF_PROCS", "0"))
    except ValueError:
        n = 0
    return n if n > 0 else max(1, min(14, (os.cpu_count() or 2) - 2))


def run_tasks(rep: Reporter, tasks: Sequence[Task], procs: int = 0) -> None:
    """Run tasks (largest first is the caller's business) and merge their results."""
    procs = procs or n_procs()
    procs = min(procs, max(1, len(tasks)))
    verbose = os.environ.get("VERIF_VERBOSE")
    if procs == 1 or os.environ.get("VERIF_INLINE"):
        for t in tasks:
            r = _work(t)
            if verbose:
                print(f"  .. {r.get('model')} {r.get('task_s')}s states={r.get('states')} "
                      f"trans={r.get('transitions')} closed={r.get('closed')} err={bool(r.get('error'))}", flush=True)
            rep.add_model(r)
        return
    from multiprocessing.connection import wait as mp_wait

    # One fresh (spawned) process per task: memory and XLA executables are returned to the system after every task,
    # and a worker killed from outside (e.g. by the kernel's OOM killer) is noticed - its task is reported as an
    # error - instead of leaving the run waiting forever.  (mp.Pool hangs on a killed worker; ProcessPoolExecutor
    # with max_tasks_per_child deadlocks on Python 3.12.1.)
    ctx = mp.get_context("spawn")
    queue = list(tasks)
    active: Dict[Any, Tuple[Any, Task]] = {}  # parent connection -> (process, task)

    def finish(r: Dict[str, Any]) -> None:
        if verbose:
            print(f"  .. {r.get('model')} {r.get('task_s')}s states={r.get('states')} "
                  f"trans={r.get('transitions')} closed={r.get('closed')} err={bool(r.get('error'))}", flush=True)
        rep.add_model(r)

    while queue or active:
        while queue and len(active) < procs:
            t = queue.pop(0)
            parent, child = ctx.Pipe(duplex=False)
            p = ctx.Process(target=_child, args=(child, t), daemon=True)
            p.start()
            child.close()
            active[parent] = (p, t)
        mp_wait(list(active) + [p.sentinel for p, _ in active.values()], timeout=5.0)
        for conn in list(active):
            p, t = active[conn]
            r = None
            if conn.poll():
                try:
                    r = conn.recv()
                except (EOFError, OSError):
                    r = None
                if r is None and p.is_alive():
                    continue
            elif p.is_alive():
                continue
            if r is None:  # the process is gone and left no result
                kw = t[2]
                p.join(1.0)
                r = {"model": kw.get("cfg_name") or kw.get("model") or t[1],
                     "error": f"worker process died (exit code {p.exitcode}); the task did not finish"}
            del active[conn]
            conn.close()
            p.join(5.0)
            if p.is_alive():
                p.kill()
            finish(r)
    rep.coverage["per_model"].sort(key=lambda m: str(m.get("model")))
