"""Process pool: one task per (property, model); results merged into a Reporter."""
from __future__ import annotations

import importlib
import multiprocessing as mp
import os
import time
import traceback
from typing import Any, Dict, List, Sequence, Tuple

from mc import boot
from mc.report import Reporter

Task = Tuple[str, str, Dict[str, Any]]  # (module, function, kwargs)


def _work(task: Task) -> Dict[str, Any]:
    mod, fn, kw = task
    t0 = time.time()
    try:
        boot.assert_repo()
        f = getattr(importlib.import_module(mod), fn)
        res = f(**kw)
        res.setdefault("model", kw.get("cfg_name") or kw.get("model") or fn)
        res.setdefault("task_s", round(time.time() - t0, 2))
        try:
            import gc

            import jax

            jax.clear_caches()
            gc.collect()
        except Exception:  # noqa: BLE001
            pass
        return res
    except Exception:  # noqa: BLE001 - reported, never swallowed
        return {
            "model": kw.get("cfg_name") or kw.get("model") or fn,
            "error": traceback.format_exc(limit=12)[-3000:],
            "task_s": round(time.time() - t0, 2),
        }


def n_procs() -> int:
    try:
        n = int(os.environ.get("VERIF_PROCS", "0"))
    except ValueError:
        n = 0
    return n if n > 0 else max(1, min(14, (os.cpu_count() or 2) - 2))


def run_tasks(rep: Reporter, tasks: Sequence[Task], procs: int = 0) -> None:
    """Run tasks (largest first is the caller's business) and merge their results."""
    procs = procs or n_procs()
    procs = min(procs, max(1, len(tasks)))
    verbose = os.environ.get("VERIF_VERBOSE")
    if procs == 1 or os.environ.get("VERIF_INLINE"):
        for t in tasks:
            r = _work(t)
            if verbose:
                print(f"  .. {r.get('model')} {r.get('task_s')}s states={r.get('states')} "
                      f"trans={r.get('transitions')} closed={r.get('closed')} err={bool(r.get('error'))}", flush=True)
            rep.add_model(r)
        return
    import concurrent.futures as cf

    ctx = mp.get_context("spawn")
    # ProcessPoolExecutor (not mp.Pool): a worker killed from outside (e.g. by the kernel's OOM killer) breaks the
    # pool with an exception instead of leaving the run waiting forever; recycle workers, XLA executables accumulate
    pending: Dict[Any, Task] = {}
    with cf.ProcessPoolExecutor(max_workers=procs, mp_context=ctx, max_tasks_per_child=4) as pool:
        for t in tasks:
            pending[pool.submit(_work, t)] = t
        for fut in cf.as_completed(list(pending)):
            t = pending.pop(fut)
            try:
                r = fut.result()
            except Exception as e:  # noqa: BLE001 - BrokenProcessPool: every unfinished task fails the same way
                kw = t[2]
                r = {"model": kw.get("cfg_name") or kw.get("model") or t[1],
                     "error": f"worker process died ({type(e).__name__}: {e}); the task did not finish"}
            if verbose:
                print(f"  .. {r.get('model')} {r.get('task_s')}s states={r.get('states')} "
                      f"trans={r.get('transitions')} closed={r.get('closed')} err={bool(r.get('error'))}", flush=True)
            rep.add_model(r)
    rep.coverage["per_model"].sort(key=lambda m: str(m.get("model")))
