"""Configuration catalogue: every environment x tiny / awkward / default configurations.

A configuration is a *constructor expression* (a string evaluated in `namespace()`), which makes a
replay file self-describing, plus the reset-key window and the exploration bounds.
"""
from __future__ import annotations

import dataclasses
import importlib
import types
from typing import Any, Dict, List, Optional, Sequence, Tuple

from mc import boot  # noqa: F401

_PKG = {
    "game_2048": "logic", "graph_coloring": "logic", "minesweeper": "logic", "rubiks_cube": "logic",
    "sliding_tile_puzzle": "logic", "sudoku": "logic",
    "bin_pack": "packing", "flat_pack": "packing", "job_shop": "packing", "knapsack": "packing",
    "tetris": "packing",
    "cleaner": "routing", "connector": "routing", "cvrp": "routing", "lbf": "routing", "maze": "routing",
    "mmst": "routing", "multi_cvrp": "routing", "pac_man": "routing", "robot_warehouse": "routing",
    "snake": "routing", "sokoban": "routing", "tsp": "routing",
}
FAMILIES = sorted(_PKG)

_NS: Optional[Dict[str, Any]] = None


def namespace() -> Dict[str, Any]:
    """Names available to constructor expressions: env classes, G.<family> generator modules,
    R.<family> reward modules, M.<family>.<module> anything else, np/jnp."""
    global _NS
    if _NS is not None:
        return _NS
    import jax.numpy as jnp
    import numpy as np

    import jumanji.environments as E

    ns: Dict[str, Any] = {k: getattr(E, k) for k in dir(E) if not k.startswith("_")}
    G = types.SimpleNamespace()
    R = types.SimpleNamespace()
    M = types.SimpleNamespace()
    for fam, pkg in _PKG.items():
        base = f"jumanji.environments.{pkg}.{fam}"
        setattr(M, fam, importlib.import_module(base))
        for attr, holder in (("generator", G), ("reward", R)):
            try:
                setattr(holder, fam, importlib.import_module(f"{base}.{attr}"))
            except ModuleNotFoundError:
                pass
    ns.update(G=G, R=R, M=M, np=np, jnp=jnp)
    from mc import inject

    ns["INJ"] = inject
    _NS = ns
    return ns


@dataclasses.dataclass(frozen=True)
class Cfg:
    name: str
    family: str
    ctor: str
    kind: str = "tiny"  # tiny | awkward | default
    keys_quick: int = 2
    keys_thorough: int = 8
    depth: int = 64
    depth_thorough: Optional[int] = None  # deeper bound of the thorough tier (default: the same depth)
    keys_legal_quick: Optional[int] = None  # quick-tier key window of the (much smaller) legal-actions-only graphs
    max_states_quick: int = 30_000
    max_states_thorough: int = 300_000
    time_limit: Optional[int] = None  # the configured time limit if the env takes one (C11)
    horizon: Optional[str] = None  # expression for the structural horizon (C11), evaluated with env
    tags: Tuple[str, ...] = ()
    quick: bool = True  # part of the quick tier
    instance_fields: Tuple[str, ...] = ()  # injected instance family: state fields identifying an instance
    ref_states_quick: int = 3000  # state cap of the reference-model checks (per-row Python oracles) in the quick tier
    modeb: str = ""  # also explore in mode B with this base schedule ("first" | "last") even if not default-size
    n_instances: int = 0  # ... and how many distinct instances the generator's range has (all must be reached)

    def make(self) -> Any:
        return eval(self.ctor, namespace())  # noqa: S307 - our own catalogue strings

    def keys(self, tier: str, env: Any = None) -> List[int]:
        if self.n_instances:
            from mc import inject

            ks, n = inject.distinct_instance_keys(env if env is not None else self.make(), self.instance_fields,
                                                  self.n_instances)
            if n != self.n_instances:
                raise RuntimeError(f"{self.name}: only {n} of {self.n_instances} injected instances reached")
            return ks
        return list(range(self.keys_quick if tier == "quick" else self.keys_thorough))

    def depth_for(self, tier: str) -> int:
        return self.depth_thorough if (tier == "thorough" and self.depth_thorough) else self.depth

    def max_states(self, tier: str) -> int:
        return self.max_states_quick if tier == "quick" else self.max_states_thorough


def _c(name: str, family: str, ctor: str, **kw: Any) -> Cfg:
    return Cfg(name=name, family=family, ctor=ctor, **kw)


RW_TINY = "shelf_rows=1, shelf_columns=3, column_height=1, num_agents=2, sensor_range=1, request_queue_size=2"
RW_AWK = "shelf_rows=1, shelf_columns=3, column_height=2, num_agents=3, sensor_range=2, request_queue_size=1"

CATALOG: List[Cfg] = [
    # ---------------- Game2048
    _c("game2048-2x2", "game_2048", "Game2048(2)", depth=8, depth_thorough=10, keys_quick=2, keys_thorough=6),
    _c("game2048-3x3", "game_2048", "Game2048(3)", depth=5, depth_thorough=7, keys_quick=1, keys_thorough=3, kind="awkward"),
    _c("game2048-5x5", "game_2048", "Game2048(5)", kind="awkward", depth=3, depth_thorough=6, keys_quick=1, keys_thorough=2, quick=False),
    _c("game2048-default", "game_2048", "Game2048()", kind="default", depth=4, depth_thorough=7, keys_quick=1, keys_thorough=2),
    # ---------------- GraphColoring
    _c("graphcol-4", "graph_coloring", "GraphColoring(G.graph_coloring.RandomGenerator(4, 0.5))",
       keys_quick=4, keys_thorough=16, horizon="4"),
    _c("graphcol-all4", "graph_coloring", "GraphColoring(INJ.all_graphs(4))", horizon="4",
       instance_fields=("adj_matrix",), n_instances=64, kind="injected", max_states_quick=40_000),
    _c("graphcol-5", "graph_coloring", "GraphColoring(G.graph_coloring.RandomGenerator(5, 0.6))",
       keys_quick=3, keys_thorough=8, horizon="5"),
    _c("graphcol-5-dense", "graph_coloring", "GraphColoring(G.graph_coloring.RandomGenerator(5, 0.95))",
       kind="awkward", keys_quick=1, keys_thorough=4, horizon="5", quick=False),
    _c("graphcol-4-sparse", "graph_coloring", "GraphColoring(G.graph_coloring.RandomGenerator(4, 0.05))",
       kind="awkward", keys_quick=2, keys_thorough=4, horizon="4"),
    _c("graphcol-3-dense", "graph_coloring", "GraphColoring(G.graph_coloring.RandomGenerator(3, 0.99))",
       kind="awkward", keys_quick=2, keys_thorough=4, horizon="3"),
    _c("graphcol-default", "graph_coloring", "GraphColoring()", kind="default", depth=3, depth_thorough=4,
       keys_quick=1, keys_thorough=2, horizon="20"),
    # ---------------- Minesweeper
    _c("mines-3x3-2", "minesweeper", "Minesweeper(G.minesweeper.UniformSamplingGenerator(3, 3, 2))",
       keys_quick=2, keys_thorough=8, horizon="7"),
    _c("mines-all-3x3-2", "minesweeper", "Minesweeper(INJ.all_mines(3, 3, 2))", horizon="7",
       instance_fields=("flat_mine_locations",), n_instances=36, kind="injected", max_states_quick=60_000),
    _c("mines-2x5-1", "minesweeper", "Minesweeper(G.minesweeper.UniformSamplingGenerator(2, 5, 1))",
       kind="awkward", keys_quick=1, keys_thorough=4, horizon="9", max_states_quick=6000),
    _c("mines-4x3-11", "minesweeper", "Minesweeper(G.minesweeper.UniformSamplingGenerator(4, 3, 11))",
       kind="awkward", keys_quick=2, keys_thorough=6, horizon="1"),
    _c("mines-3x3-2-rewards", "minesweeper", "Minesweeper(G.minesweeper.UniformSamplingGenerator(3, 3, 2), "
       "reward_function=R.minesweeper.DefaultRewardFn(2.0, -1.0, -0.5))", kind="awkward", keys_quick=1, keys_thorough=3,
       horizon="7"),
    _c("mines-3x3-0", "minesweeper", "Minesweeper(G.minesweeper.UniformSamplingGenerator(3, 3, 0))", kind="awkward",
       keys_quick=1, keys_thorough=1, horizon="9", max_states_quick=4000, quick=False),
    _c("mines-2x2-3", "minesweeper", "Minesweeper(G.minesweeper.UniformSamplingGenerator(2, 2, 3))", kind="awkward",
       keys_quick=3, keys_thorough=6, horizon="1"),
    _c("mines-default", "minesweeper", "Minesweeper()", kind="default", depth=2, keys_quick=1,
       keys_thorough=2, horizon="90"),
    # ---------------- RubiksCube
    _c("rubik-2-T3", "rubiks_cube", "RubiksCube(G.rubiks_cube.ScramblingGenerator(2, 5), time_limit=3)",
       keys_quick=1, keys_thorough=3, time_limit=3),
    _c("rubik-3-T2", "rubiks_cube", "RubiksCube(G.rubiks_cube.ScramblingGenerator(3, 2), time_limit=2)",
       kind="awkward", keys_quick=1, keys_thorough=3, time_limit=2),
    _c("rubik-2-T1", "rubiks_cube", "RubiksCube(G.rubiks_cube.ScramblingGenerator(2, 0), time_limit=1)",
       kind="awkward", keys_quick=1, keys_thorough=2, time_limit=1),
    _c("rubik-4-T2", "rubiks_cube", "RubiksCube(G.rubiks_cube.ScramblingGenerator(4, 3), time_limit=2)",
       kind="awkward", keys_quick=1, keys_thorough=2, time_limit=2, quick=False),
    _c("rubik-default", "rubiks_cube", "RubiksCube()", kind="default", depth=2, depth_thorough=3, keys_quick=1,
       keys_thorough=2, time_limit=200),
    # ---------------- SlidingTilePuzzle
    _c("slide-2-T6", "sliding_tile_puzzle",
       "SlidingTilePuzzle(G.sliding_tile_puzzle.RandomWalkGenerator(2, 10), time_limit=6)",
       keys_quick=2, keys_thorough=6, time_limit=6),
    _c("slide-3-T7", "sliding_tile_puzzle",
       "SlidingTilePuzzle(G.sliding_tile_puzzle.RandomWalkGenerator(3, 20), time_limit=7)",
       keys_quick=1, keys_thorough=4, time_limit=7),
    _c("slide-3-sparse-T3", "sliding_tile_puzzle",
       "SlidingTilePuzzle(G.sliding_tile_puzzle.RandomWalkGenerator(3, 2), "
       "reward_fn=R.sliding_tile_puzzle.SparseRewardFn(), time_limit=3)",
       kind="awkward", keys_quick=2, keys_thorough=6, time_limit=3),
    _c("slide-2-solved-T4", "sliding_tile_puzzle",
       "SlidingTilePuzzle(G.sliding_tile_puzzle.RandomWalkGenerator(2, 0), time_limit=4)", kind="awkward",
       keys_quick=1, keys_thorough=1, time_limit=4),
    _c("slide-2-sparse-T6", "sliding_tile_puzzle",
       "SlidingTilePuzzle(G.sliding_tile_puzzle.RandomWalkGenerator(2, 3), "
       "reward_fn=R.sliding_tile_puzzle.SparseRewardFn(), time_limit=6)", kind="awkward", keys_quick=6,
       keys_thorough=12, time_limit=6),
    _c("slide-3-T1", "sliding_tile_puzzle",
       "SlidingTilePuzzle(G.sliding_tile_puzzle.RandomWalkGenerator(3, 5), time_limit=1)", kind="awkward",
       keys_quick=2, keys_thorough=4, time_limit=1),
    _c("slide-default", "sliding_tile_puzzle", "SlidingTilePuzzle()", kind="default", depth=4, depth_thorough=9,
       keys_quick=1, keys_thorough=2, time_limit=500),
    # ---------------- Sudoku
    _c("sudoku-near", "sudoku", "Sudoku(INJ.sudoku_near_complete(4))", keys_quick=2, keys_thorough=6,
       horizon="4", max_states_quick=4000),
    _c("sudoku-near1", "sudoku", "Sudoku(INJ.sudoku_near_complete(1))", keys_quick=4, keys_thorough=8, horizon="1",
       max_states_quick=6000),
    _c("sudoku-near2", "sudoku", "Sudoku(INJ.sudoku_near_complete(2))", keys_quick=3, keys_thorough=8, horizon="2",
       max_states_quick=8000),
    _c("sudoku-deadend", "sudoku", "Sudoku(INJ.sudoku_dead_ends())", keys_quick=6, keys_thorough=12, horizon="4",
       kind="awkward", max_states_quick=8000),
    _c("sudoku-default", "sudoku", "Sudoku()", kind="default", depth=1, keys_quick=1, keys_thorough=1,
       horizon="81"),
    # ---------------- BinPack
    _c("binpack-5", "bin_pack",
       "BinPack(G.bin_pack.RandomGenerator(5, 10, split_num_same_items=2), obs_num_ems=6)",
       keys_quick=3, keys_thorough=8, horizon="5", max_states_quick=1500),
    _c("binpack-7-ems8", "bin_pack",
       "BinPack(G.bin_pack.RandomGenerator(7, 14, split_num_same_items=2), obs_num_ems=8)", kind="awkward",
       keys_quick=1, keys_thorough=4, horizon="7", max_states_quick=3000, max_states_thorough=40_000),
    # a container whose footprint in mm^2 exceeds 2**31 and a small EMS buffer (max_num_ems=6 fills up), a cube-ish
    # small container: sizes at the extremes of what the generator accepts
    _c("binpack-yard-5", "bin_pack", "BinPack(G.bin_pack.RandomGenerator(5, 10, split_num_same_items=2, "
       "container_dims=(60000, 40000, 5000)), obs_num_ems=4)", kind="awkward", keys_quick=1, keys_thorough=3,
       horizon="5", max_states_quick=1500),
    _c("binpack-6-buf6", "bin_pack", "BinPack(G.bin_pack.RandomGenerator(6, 6, split_num_same_items=2, "
       "container_dims=(12, 10, 8)), obs_num_ems=6, normalize_dimensions=False)", kind="awkward", keys_quick=2,
       keys_thorough=6, horizon="6", max_states_quick=3000),
    _c("binpack-6-buf3", "bin_pack", "BinPack(G.bin_pack.RandomGenerator(6, 3, split_num_same_items=2, "
       "container_dims=(12, 10, 8)), obs_num_ems=3, normalize_dimensions=False)", kind="awkward", keys_quick=2,
       keys_thorough=6, horizon="6", max_states_quick=3000),
    _c("binpack-5-ems2-sparse", "bin_pack", "BinPack(G.bin_pack.RandomGenerator(5, 10, split_num_same_items=2), "
       "obs_num_ems=2, normalize_dimensions=False, reward_fn=R.bin_pack.SparseReward())", kind="awkward",
       keys_quick=1, keys_thorough=2, horizon="5", max_states_quick=400),
    _c("binpack-toy-ems3", "bin_pack", "BinPack(G.bin_pack.ToyGenerator(), obs_num_ems=3, "
       "normalize_dimensions=False, reward_fn=R.bin_pack.SparseReward())",
       kind="awkward", depth=3, keys_quick=1, keys_thorough=1, horizon="20", max_states_quick=300, quick=False),
    _c("binpack-default", "bin_pack", "BinPack()", kind="default", depth=1, keys_quick=1,
       keys_thorough=1, horizon="20", quick=False),
    _c("binpack-20-ems10", "bin_pack", "BinPack(G.bin_pack.RandomGenerator(20, 40), obs_num_ems=10)", kind="awkward",
       depth=1, keys_quick=1, keys_thorough=2, horizon="20", quick=False, modeb="first"),
    # ---------------- FlatPack
    _c("flatpack-2x2", "flat_pack", "FlatPack(G.flat_pack.RandomFlatPackGenerator(2, 2))",
       keys_quick=1, keys_thorough=3, horizon="4", max_states_quick=4000),
    _c("flatpack-1x3-block", "flat_pack", "FlatPack(G.flat_pack.RandomFlatPackGenerator(1, 3), "
       "reward_fn=R.flat_pack.BlockDenseReward())", kind="awkward", keys_quick=1, keys_thorough=3,
       horizon="3"),
    _c("flatpack-2x1", "flat_pack", "FlatPack(G.flat_pack.RandomFlatPackGenerator(2, 1))", kind="awkward",
       keys_quick=2, keys_thorough=4, horizon="2"),
    _c("flatpack-toy-rot", "flat_pack", "FlatPack(G.flat_pack.ToyFlatPackGeneratorWithRotation())", kind="awkward",
       keys_quick=1, keys_thorough=1, horizon="4", quick=False),
    _c("flatpack-default", "flat_pack", "FlatPack()", kind="default", depth=1, keys_quick=1,
       keys_thorough=1, horizon="25", quick=False),
    # ---------------- JobShop
    _c("jobshop-2222", "job_shop", "JobShop(G.job_shop.RandomGenerator(2, 2, 2, 2))",
       keys_quick=3, keys_thorough=8, horizon="8"),
    _c("jobshop-3223", "job_shop", "JobShop(G.job_shop.RandomGenerator(3, 2, 2, 3))",
       keys_quick=2, keys_thorough=4, horizon="18"),
    _c("jobshop-3332", "job_shop", "JobShop(G.job_shop.RandomGenerator(3, 3, 3, 2))", kind="awkward",
       keys_quick=1, keys_thorough=3, horizon="18", quick=False),
    _c("jobshop-2311", "job_shop", "JobShop(G.job_shop.RandomGenerator(2, 3, 1, 1))",
       kind="awkward", keys_quick=1, keys_thorough=3, horizon="2"),
    _c("jobshop-toy", "job_shop", "JobShop(G.job_shop.ToyGenerator())", kind="awkward", depth=2,
       keys_quick=1, keys_thorough=1, horizon="60", quick=False),
    # ---------------- Knapsack
    _c("knapsack-6", "knapsack", "Knapsack(G.knapsack.RandomGenerator(6, 1.5))",
       keys_quick=3, keys_thorough=8, horizon="6"),
    _c("knapsack-grid3", "knapsack", "Knapsack(INJ.knapsack_grid(3, 1.0))", horizon="3",
       instance_fields=("weights",), n_instances=27, kind="injected"),
    _c("knapsack-5-sparse", "knapsack", "Knapsack(G.knapsack.RandomGenerator(5, 1.0), "
       "reward_fn=R.knapsack.SparseReward())", keys_quick=2, keys_thorough=6, horizon="5"),
    _c("knapsack-4-tight", "knapsack", "Knapsack(G.knapsack.RandomGenerator(4, 0.1))", kind="awkward",
       keys_quick=2, keys_thorough=6, horizon="4"),
    # everything fits with more than one unit of budget to spare: the episode must end when the last item is packed
    _c("knapsack-3-roomy", "knapsack", "Knapsack(G.knapsack.RandomGenerator(3, 5.0))", kind="awkward",
       keys_quick=2, keys_thorough=4, horizon="3"),
    _c("knapsack-3-roomy-sparse", "knapsack", "Knapsack(G.knapsack.RandomGenerator(3, 5.0), "
       "reward_fn=R.knapsack.SparseReward())", kind="awkward", keys_quick=2, keys_thorough=4, horizon="3"),
    _c("knapsack-default", "knapsack", "Knapsack()", kind="default", depth=2, depth_thorough=3, keys_quick=1,
       keys_thorough=2, horizon="50"),
    # ---------------- Tetris
    _c("tetris-4x4-T4", "tetris", "Tetris(4, 4, 4)", keys_quick=2, keys_thorough=6, time_limit=4),
    _c("tetris-5x4-T3", "tetris", "Tetris(5, 4, 3)", kind="awkward", keys_quick=1, keys_thorough=4,
       time_limit=3),
    _c("tetris-4x7-T2", "tetris", "Tetris(4, 7, 2)", kind="awkward", keys_quick=1, keys_thorough=3,
       time_limit=2),
    _c("tetris-6x5-T1", "tetris", "Tetris(6, 5, 1)", kind="awkward", keys_quick=1, keys_thorough=3,
       time_limit=1),
    _c("tetris-8x4-T3", "tetris", "Tetris(8, 4, 3)", kind="awkward", keys_quick=1, keys_thorough=2, time_limit=3,
       quick=False),
    _c("tetris-default", "tetris", "Tetris()", kind="default", depth=2, depth_thorough=3, keys_quick=1, keys_thorough=2,
       time_limit=400),
    # ---------------- Cleaner
    _c("cleaner-3x4x2-T5", "cleaner", "Cleaner(G.cleaner.RandomGenerator(3, 4, 2), time_limit=5)",
       keys_quick=2, keys_thorough=6, time_limit=5),
    _c("cleaner-3x7x1-T7", "cleaner", "Cleaner(G.cleaner.RandomGenerator(3, 7, 1), time_limit=7)",
       kind="awkward", keys_quick=2, keys_thorough=8, time_limit=7),
    _c("cleaner-5x3x2-T3", "cleaner", "Cleaner(G.cleaner.RandomGenerator(5, 3, 2), time_limit=3)",
       kind="awkward", keys_quick=2, keys_thorough=6, time_limit=3),
    _c("cleaner-2x2x3-none", "cleaner", "Cleaner(G.cleaner.RandomGenerator(2, 2, 3))", kind="awkward",
       keys_quick=1, keys_thorough=3, time_limit=4),
    _c("cleaner-2x4x1-none", "cleaner", "Cleaner(G.cleaner.RandomGenerator(2, 4, 1))", kind="awkward",
       keys_quick=2, keys_thorough=4, time_limit=8, depth=9),
    _c("cleaner-4x2x1-none", "cleaner", "Cleaner(G.cleaner.RandomGenerator(4, 2, 1))", kind="awkward",
       keys_quick=2, keys_thorough=4, time_limit=8, depth=9),
    _c("cleaner-4x3x2-pen025-T4", "cleaner", "Cleaner(G.cleaner.RandomGenerator(4, 3, 2), time_limit=4, "
       "penalty_per_timestep=0.25)", kind="awkward", keys_quick=1, keys_thorough=3, time_limit=4),
    _c("cleaner-default", "cleaner", "Cleaner()", kind="default", depth=2, depth_thorough=3, keys_quick=1,
       keys_thorough=2, time_limit=100),
    # ---------------- Connector
    _c("connector-4x2-T5", "connector", "Connector(G.connector.UniformRandomGenerator(4, 2), time_limit=5)",
       keys_quick=2, keys_thorough=6, time_limit=5),
    _c("connector-3x2-T3", "connector", "Connector(G.connector.UniformRandomGenerator(3, 2), time_limit=3)",
       keys_quick=3, keys_thorough=10, time_limit=3),
    _c("connector-3x3-T4", "connector", "Connector(G.connector.UniformRandomGenerator(3, 3), time_limit=4)",
       keys_quick=2, keys_thorough=4, time_limit=4),
    _c("connector-rw5x3-T2", "connector", "Connector(G.connector.RandomWalkGenerator(5, 3), time_limit=2)",
       kind="awkward", keys_quick=1, keys_thorough=4, time_limit=2),
    _c("connector-3x2-rw-T3", "connector", "Connector(G.connector.UniformRandomGenerator(3, 2), "
       "reward_fn=R.connector.DenseRewardFn(2.0, -0.5), time_limit=3)", kind="awkward", keys_quick=2,
       keys_thorough=4, time_limit=3),
    _c("connector-4x1-T4", "connector", "Connector(G.connector.UniformRandomGenerator(4, 1), time_limit=4)",
       kind="awkward", keys_quick=2, keys_thorough=4, time_limit=4),
    _c("connector-default", "connector", "Connector()", kind="default", depth=1, keys_quick=1,
       keys_thorough=1, time_limit=50, quick=False),
    # ---------------- CVRP
    _c("cvrp-4", "cvrp", "CVRP(G.cvrp.UniformGenerator(4, 10, 5))", keys_quick=2, keys_thorough=8,
       horizon="8"),
    _c("cvrp-3-sparse-tight", "cvrp", "CVRP(G.cvrp.UniformGenerator(3, 5, 5), reward_fn=R.cvrp.SparseReward())",
       kind="awkward", keys_quick=2, keys_thorough=8, horizon="6"),
    # capacity covers the total demand: a single trip serves everybody, the depot is only entered at the end
    _c("cvrp-3-roomy", "cvrp", "CVRP(G.cvrp.UniformGenerator(3, 30, 5))", kind="awkward", keys_quick=2, keys_thorough=4,
       horizon="6"),
    _c("cvrp-default", "cvrp", "CVRP()", kind="default", depth=2, depth_thorough=3, keys_quick=1, keys_thorough=2,
       horizon="40"),
    # ---------------- LBF
    _c("lbf-5x2x1-T3", "lbf", "LevelBasedForaging(G.lbf.RandomGenerator(5, 2, 1, fov=5), time_limit=3)",
       keys_quick=2, keys_thorough=6, time_limit=3),
    _c("lbf-5-fov1-T2", "lbf", "LevelBasedForaging(G.lbf.RandomGenerator(5, 2, 1, fov=1), time_limit=2)",
       kind="awkward", keys_quick=2, keys_thorough=6, time_limit=2),
    _c("lbf-6x3x2-grid-T2", "lbf", "LevelBasedForaging(G.lbf.RandomGenerator(6, 3, 2, fov=2, "
       "force_coop=True), grid_observation=True, time_limit=2)", kind="awkward", keys_quick=1,
       keys_thorough=3, time_limit=2),
    _c("lbf-5-grid-fov2-T3", "lbf", "LevelBasedForaging(G.lbf.RandomGenerator(5, 2, 1, fov=2), "
       "grid_observation=True, time_limit=3)", kind="awkward", keys_quick=1, keys_thorough=3, time_limit=3),
    _c("lbf-6x2x2-grid-T3", "lbf", "LevelBasedForaging(G.lbf.RandomGenerator(6, 2, 2, fov=2), "
       "grid_observation=True, time_limit=3)", kind="awkward", keys_quick=1, keys_thorough=3, time_limit=3),
    _c("lbf-6x2x2-vec-T3", "lbf", "LevelBasedForaging(G.lbf.RandomGenerator(6, 2, 2, fov=2), time_limit=3)",
       kind="awkward", keys_quick=1, keys_thorough=3, time_limit=3, quick=False),
    _c("lbf-5-nonorm-pen-T2", "lbf", "LevelBasedForaging(G.lbf.RandomGenerator(5, 2, 1, fov=5), "
       "normalize_reward=False, penalty=1.0, time_limit=2)", kind="awkward", keys_quick=1,
       keys_thorough=3, time_limit=2),
    # one option at its non-default value, all others default (penalty stays 0.0)
    _c("lbf-5-nonorm-T2", "lbf", "LevelBasedForaging(G.lbf.RandomGenerator(5, 2, 1, fov=5), "
       "normalize_reward=False, time_limit=2)", kind="awkward", keys_quick=1, keys_thorough=3, time_limit=2),
    # a single agent: every per-agent axis has length 1
    _c("lbf-5x1x1-T3", "lbf", "LevelBasedForaging(G.lbf.RandomGenerator(5, 1, 1, fov=2, force_coop=False), time_limit=3)",
       kind="awkward", keys_quick=2, keys_thorough=4, time_limit=3),
    # food levels (up to 3 x max_agent_level = 15) far above the grid size: bounds that take a maximum over sizes
    _c("lbf-6x3x2-lvl5-T2", "lbf", "LevelBasedForaging(G.lbf.RandomGenerator(6, 3, 2, fov=6, max_agent_level=5, "
       "force_coop=True), time_limit=2)", kind="awkward", keys_quick=3, keys_thorough=6, time_limit=2),
    _c("lbf-default", "lbf", "LevelBasedForaging()", kind="default", depth=1, depth_thorough=2, keys_quick=1,
       keys_thorough=2, time_limit=100),
    # ---------------- Maze
    _c("maze-5x5-T6", "maze", "Maze(G.maze.RandomGenerator(5, 5), time_limit=6)", keys_quick=3,
       keys_thorough=10, time_limit=6),
    _c("maze-3x7-T7", "maze", "Maze(G.maze.RandomGenerator(3, 7), time_limit=7)", kind="awkward",
       keys_quick=2, keys_thorough=8, time_limit=7),
    _c("maze-6x2-none", "maze", "Maze(G.maze.RandomGenerator(6, 2))", kind="awkward", keys_quick=2,
       keys_thorough=6, time_limit=12, depth=12),
    _c("maze-toy-T3", "maze", "Maze(G.maze.ToyGenerator(), time_limit=3)", kind="awkward", keys_quick=1,
       keys_thorough=2, time_limit=3),
    _c("maze-default", "maze", "Maze()", kind="default", depth=3, depth_thorough=10, keys_quick=1, keys_thorough=2,
       time_limit=100),
    # ---------------- MMST
    _c("mmst-12-T3", "mmst", "MMST(G.mmst.SplitRandomGenerator(12, 18, 4, 2, 3, 3), time_limit=3)",
       keys_quick=1, keys_thorough=3, time_limit=3, max_states_quick=3000),
    _c("mmst-12-T1", "mmst", "MMST(G.mmst.SplitRandomGenerator(12, 18, 4, 2, 3, 1), time_limit=1)",
       kind="awkward", keys_quick=2, keys_thorough=4, time_limit=1),
    _c("mmst-12-T6", "mmst", "MMST(G.mmst.SplitRandomGenerator(12, 18, 4, 2, 3, 6), time_limit=6)",
       kind="awkward", keys_quick=1, keys_thorough=2, time_limit=6, quick=False),
    # constructor time limit shorter than the generator's buffer (`max_step`): the two must not be conflated
    _c("mmst-12-T2-buf5", "mmst", "MMST(G.mmst.SplitRandomGenerator(12, 18, 4, 2, 3, 5), time_limit=2)",
       kind="awkward", keys_quick=1, keys_thorough=3, time_limit=2),
    _c("mmst-12-T2-rw", "mmst", "MMST(G.mmst.SplitRandomGenerator(12, 18, 4, 2, 3, 2), "
       "reward_fn=R.mmst.DenseRewardFn(reward_values=(5.0, -2.0, -3.0)), time_limit=2)", kind="awkward",
       keys_quick=1, keys_thorough=2, time_limit=2),
    _c("mmst-6-1agent-T3", "mmst", "MMST(G.mmst.SplitRandomGenerator(6, 6, 3, 1, 3, 3), time_limit=3)", kind="awkward",
       keys_quick=2, keys_thorough=4, time_limit=3),
    # THREE agents (two nodes each) on 9 nodes: 729 joint actions, three-way ties and blocks by several agents
    _c("mmst-9x3-T3", "mmst", "MMST(G.mmst.SplitRandomGenerator(9, 12, 4, 3, 2, 3), time_limit=3)", kind="awkward",
       keys_quick=6, keys_thorough=12, keys_legal_quick=12, time_limit=3, max_states_quick=20000, ref_states_quick=20000,
       max_states_thorough=20_000),
    _c("mmst-default", "mmst", "MMST()", kind="default", depth=1, keys_quick=1, keys_thorough=1,
       time_limit=70, quick=False),
    # ---------------- MultiCVRP
    _c("mcvrp-6x2", "multi_cvrp", "MultiCVRP(G.multi_cvrp.UniformRandomGenerator(6, 2))", depth=3,
       keys_quick=1, keys_thorough=3, horizon="12", max_states_quick=3000, modeb="last"),
    _c("mcvrp-6x3", "multi_cvrp", "MultiCVRP(G.multi_cvrp.UniformRandomGenerator(6, 3))", depth=2, kind="awkward",
       keys_quick=1, keys_thorough=2, horizon="12", max_states_quick=3000),
    _c("mcvrp-6x2-sparse", "multi_cvrp", "MultiCVRP(G.multi_cvrp.UniformRandomGenerator(6, 2), "
       "reward_fn=R.multi_cvrp.SparseReward(2, 6, 10))", depth=2, kind="awkward", keys_quick=1,
       keys_thorough=2, horizon="12", quick=False, modeb="last"),
    # ---------------- PacMan
    _c("pacman-9x11-T4", "pac_man", "PacMan(generator=M.pac_man.generator.AsciiGenerator(INJ.PACMAN_SMALL), "
       "time_limit=4)", kind="awkward", depth=5, keys_quick=1, keys_thorough=3, time_limit=4),
    _c("pacman-9x11-T12", "pac_man", "PacMan(generator=M.pac_man.generator.AsciiGenerator(INJ.PACMAN_SMALL), "
       "time_limit=12)", kind="awkward", depth=12, keys_quick=1, keys_thorough=2, time_limit=12, quick=False,
       max_states_thorough=60_000),
    _c("pacman-default", "pac_man", "PacMan()", kind="default", depth=5, depth_thorough=7, keys_quick=1, keys_thorough=3,
       time_limit=1000),
    _c("pacman-T3", "pac_man", "PacMan(time_limit=3)", kind="awkward", depth=5, keys_quick=1,
       keys_thorough=2, time_limit=3),
    # ---------------- RobotWarehouse
    _c("rware-tiny-T3", "robot_warehouse",
       f"RobotWarehouse(G.robot_warehouse.RandomGenerator({RW_TINY}), time_limit=3)",
       keys_quick=2, keys_thorough=10, time_limit=3),
    _c("rware-awk-T2", "robot_warehouse",
       f"RobotWarehouse(G.robot_warehouse.RandomGenerator({RW_AWK}), time_limit=2)",
       kind="awkward", keys_quick=1, keys_thorough=2, time_limit=2, quick=False),
    _c("rware-1agent-T3", "robot_warehouse",
       "RobotWarehouse(G.robot_warehouse.RandomGenerator(shelf_rows=1, shelf_columns=3, column_height=1, num_agents=1, "
       "sensor_range=1, request_queue_size=2), time_limit=3)", kind="awkward", keys_quick=2, keys_thorough=4, time_limit=3),
    _c("rware-default", "robot_warehouse", "RobotWarehouse()", kind="default", depth=1, keys_quick=1,
       keys_thorough=1, time_limit=500, quick=False),
    # ---------------- Snake
    _c("snake-3x3-T12", "snake", "Snake(3, 3, 12)", keys_quick=2, keys_thorough=6, time_limit=12),
    _c("snake-2x5-T4", "snake", "Snake(2, 5, 4)", kind="awkward", keys_quick=2, keys_thorough=6,
       time_limit=4),
    _c("snake-5x2-T3", "snake", "Snake(5, 2, 3)", kind="awkward", keys_quick=2, keys_thorough=6,
       time_limit=3),
    _c("snake-4x4-T1", "snake", "Snake(4, 4, 1)", kind="awkward", keys_quick=2, keys_thorough=4,
       time_limit=1),
    _c("snake-2x2-T10", "snake", "Snake(2, 2, 10)", kind="awkward", keys_quick=2, keys_thorough=4, time_limit=10),
    _c("snake-1x4-T6", "snake", "Snake(1, 4, 6)", kind="awkward", keys_quick=2, keys_thorough=4, time_limit=6),
    _c("snake-2x3-T14", "snake", "Snake(2, 3, 14)", kind="awkward", keys_quick=1, keys_thorough=3, time_limit=14,
       ref_states_quick=4500, quick=False),
    _c("snake-default", "snake", "Snake()", kind="default", depth=4, depth_thorough=9, keys_quick=1, keys_thorough=2,
       time_limit=4000),
    # ---------------- Sokoban
    _c("sokoban-simple-T6", "sokoban", "Sokoban(G.sokoban.SimpleSolveGenerator(), time_limit=6)",
       keys_quick=1, keys_thorough=1, time_limit=6),
    _c("sokoban-simple-T11", "sokoban", "Sokoban(G.sokoban.SimpleSolveGenerator(), time_limit=11)",
       keys_quick=1, keys_thorough=1, time_limit=11, ref_states_quick=20000),
    _c("sokoban-simple-sparse-T11", "sokoban", "Sokoban(G.sokoban.SimpleSolveGenerator(), "
       "reward_fn=R.sokoban.SparseReward(), time_limit=11)", kind="awkward", keys_quick=1, keys_thorough=1,
       time_limit=11, ref_states_quick=20000, quick=False),
    _c("sokoban-open-T4", "sokoban", "Sokoban(INJ.sokoban_open_levels(), time_limit=4)", kind="injected",
       instance_fields=("fixed_grid", "variable_grid"), n_instances=3, time_limit=4),
    _c("sokoban-toy-T5", "sokoban", "Sokoban(G.sokoban.ToyGenerator(), time_limit=5)", keys_quick=2,
       keys_thorough=4, time_limit=5),
    _c("sokoban-toy-sparse-T2", "sokoban", "Sokoban(G.sokoban.ToyGenerator(), "
       "reward_fn=R.sokoban.SparseReward(), time_limit=2)", kind="awkward", keys_quick=1,
       keys_thorough=2, time_limit=2),
    _c("sokoban-toy-default", "sokoban", "Sokoban(G.sokoban.ToyGenerator())", kind="default", depth=3, depth_thorough=8,
       keys_quick=1, keys_thorough=2, time_limit=120),
    # ---------------- TSP
    _c("tsp-5", "tsp", "TSP(G.tsp.UniformGenerator(5))", keys_quick=2, keys_thorough=8, horizon="5"),
    _c("tsp-4-sparse", "tsp", "TSP(G.tsp.UniformGenerator(4), reward_fn=R.tsp.SparseReward())",
       keys_quick=2, keys_thorough=8, horizon="4"),
    _c("tsp-2", "tsp", "TSP(G.tsp.UniformGenerator(2))", kind="awkward", keys_quick=2, keys_thorough=4,
       horizon="2"),
    _c("tsp-1", "tsp", "TSP(G.tsp.UniformGenerator(1))", kind="awkward", keys_quick=1, keys_thorough=2,
       horizon="1"),
    _c("tsp-default", "tsp", "TSP()", kind="default", depth=2, depth_thorough=3, keys_quick=1, keys_thorough=2,
       horizon="20"),
]

BY_NAME: Dict[str, Cfg] = {c.name: c for c in CATALOG}
assert len(BY_NAME) == len(CATALOG)


def select(tier: str, families: Optional[Sequence[str]] = None, kinds: Optional[Sequence[str]] = None,
           names: Optional[Sequence[str]] = None) -> List[Cfg]:
    import os

    env_f = os.environ.get("VERIF_FAMILIES")
    env_m = os.environ.get("VERIF_MODELS")
    out = []
    for c in CATALOG:
        if env_f and c.family not in env_f.split(","):
            continue
        if env_m and c.name not in env_m.split(","):
            continue
        if tier == "quick" and not c.quick:
            continue
        if families is not None and c.family not in families:
            continue
        if kinds is not None and c.kind not in kinds:
            continue
        if names is not None and c.name not in names:
            continue
        out.append(c)
    return out
