"""C16 finite spec universe: JSON-able *recipes*, builders, container types and enumerators.

A recipe fully describes how a spec is constructed through the public constructors, so a replay file
is self-contained:
  {"t": "Array", "shape": [2, 3], "dtype": "int8", "name": "a"}
  {"t": "BoundedArray", "shape": [2], "dtype": "float16", "minimum": -1.5, "maximum": [2.5, 2.0], "name": ""}
  {"t": "DiscreteArray", "num_values": 3, "dtype": "uint8", "name": "b"}
  {"t": "MultiDiscreteArray", "num_values": [[2, 3], [1, 4]], "dtype": "int16", "name": ""}
  {"t": "Spec", "ctor": "NT2", "name": "n", "children": {"x": <recipe>, "y": <recipe>}}
  {"t": "env", "ctor": "Cleaner()", "which": "observation_spec", "path": ["grid"]}
"""
from __future__ import annotations

from typing import Any, Dict, Iterator, List, NamedTuple, Tuple

from mc import boot  # noqa: F401

import chex
import numpy as np

from mc import c16_ref as ref

SHAPES: Tuple[Tuple[int, ...], ...] = ((), (0,), (1,), (2,), (2, 3), (1, 2, 2))
DTYPES = ref.DTYPES
INT_DTYPES = ("int8", "int16", "int32", "uint8")
NAMES = ("", "a", "b")
DISCRETE_NUM_VALUES = (1, 2, 3)
# the design's list, plus [2,3,4] / [3] / [[2,2]] needed to exercise shape-mismatch and broadcast pairs
MULTI_NUM_VALUES: Tuple[Any, ...] = ([2], [2, 2], [2, 3], [[2, 3], [1, 4]], [1], [3], [2, 3, 4], [[2, 2]], [[2, 2], [2, 2]])


# ---------------------------------------------------------------------------------- containers
class NT1(NamedTuple):
    x: Any


class NT2(NamedTuple):
    x: Any
    y: Any


class NT2Z(NamedTuple):
    x: Any
    z: Any


@chex.dataclass
class DC2:
    x: Any
    y: Any


CTORS = {"NT1": NT1, "NT2": NT2, "NT2Z": NT2Z, "DC2": DC2}


# ---------------------------------------------------------------------------------- builders
def _np_dtype(name: str) -> np.dtype:
    return np.dtype(name)


def build_spec(r: Dict[str, Any]) -> Any:
    import jax.numpy as jnp

    from jumanji import specs

    t = r["t"]
    if t == "env":
        from mc import catalog

        env = eval(r["ctor"], catalog.namespace())  # noqa: S307 - our own catalogue strings
        s = getattr(env, r["which"])
        for k in r.get("path", []):
            s = s[k]
        return s
    if t == "Spec":
        kids = {k: build_spec(c) for k, c in r["children"].items()}
        return specs.Spec(CTORS[r["ctor"]], r.get("name", ""), **kids)
    dt = _np_dtype(r["dtype"])
    name = r.get("name", "")
    if t == "Array":
        return specs.Array(tuple(r["shape"]), dt, name)
    if t == "BoundedArray":
        return specs.BoundedArray(tuple(r["shape"]), dt, ref.decode(r["minimum"]), ref.decode(r["maximum"]), name)
    if t == "DiscreteArray":
        return specs.DiscreteArray(int(r["num_values"]), dt, name)
    if t == "MultiDiscreteArray":
        return specs.MultiDiscreteArray(jnp.array(r["num_values"], jnp.int32), dt, name)
    raise ValueError(t)


def view_of(r: Dict[str, Any], spec: Any) -> ref.View:
    """Reference view: from the recipe for synthetic specs, from public attributes for env specs."""
    if r["t"] == "env":
        return ref.view_from_spec(spec)
    return ref.view_from_recipe(r)


def label(r: Dict[str, Any]) -> str:
    t = r["t"]
    if t == "env":
        return f"{r['ctor']}.{r['which']}" + "".join(f"[{k!r}]" for k in r.get("path", []))
    if t == "Spec":
        return f"Spec[{r['ctor']}](" + ", ".join(f"{k}={label(c)}" for k, c in r["children"].items()) + ")"
    if t == "Array":
        return f"Array({tuple(r['shape'])}, {r['dtype']}, {r.get('name', '')!r})"
    if t == "BoundedArray":
        return (f"BoundedArray({tuple(r['shape'])}, {r['dtype']}, min={r['minimum']}, max={r['maximum']}, "
                f"{r.get('name', '')!r})")
    return f"{t}({r['num_values']}, {r['dtype']}, {r.get('name', '')!r})"


# ---------------------------------------------------------------------------------- bounds
def scalars(dtype: str) -> Dict[str, Any]:
    """lo < lo2 <= hi2 < hi plus the extreme pair, all exactly representable in `dtype` (the integer
    range is kept at 3 values so that the converted Box of a (2,3) spec has 3**6 elements)."""
    dt = np.dtype(dtype)
    if dt.kind == "b":
        return dict(lo=False, hi=True, hi2=False, lo2=True, ext=(False, True))
    if dt.kind in "iu":
        info = np.iinfo(dt)
        return dict(lo=1, hi=3, hi2=2, lo2=2, ext=(int(info.min), int(info.max)))
    return dict(lo=-1.5, hi=2.5, hi2=2.0, lo2=-1.0, ext=(0.0, float("inf")))


def _full(shape: Tuple[int, ...], v: Any) -> Any:
    return np.full(shape, v).tolist()


def _full_with(shape: Tuple[int, ...], v: Any, idx: int, w: Any) -> Any:
    a = np.full(shape, v)
    a.reshape(-1)[idx] = w
    return a.tolist()


def bound_variants(shape: Tuple[int, ...], dtype: str) -> List[Tuple[str, Any, Any]]:
    """(variant id, minimum, maximum) — scalar, per-element and broadcastable-row bounds, including
    pairs that are equal after broadcasting (s0 = f0 = m0 = r0) and pairs that differ in one element."""
    s = scalars(dtype)
    lo, hi, hi2, lo2 = s["lo"], s["hi"], s["hi2"], s["lo2"]
    size = int(np.prod(shape)) if shape else 1
    out: List[Tuple[str, Any, Any]] = [("s0", lo, hi), ("s1", lo, hi2), ("s2", lo2, hi), ("ext", s["ext"][0], s["ext"][1])]
    dt = np.dtype(dtype)
    if shape in ((), (2,)) and dt.kind != "b":
        # an all-negative range (signed dtypes): a generated / default value must not be assumed to be 0 or >= 0
        if dt.kind in "if":
            out.append(("neg", -3, -1) if dt.kind == "i" else ("neg", -2.5, -0.5))
        # adjacent representable bounds at a magnitude where a tolerance-based comparison would merge them
        if dt.kind in "iu":
            top = int(min(np.iinfo(dt).max - 1, 2 ** 20))
            out += [("n0", lo, top), ("n1", lo, top + 1)]
        else:
            up = float(np.nextafter(dt.type(hi), dt.type(np.inf)))
            down = float(np.nextafter(dt.type(lo), dt.type(-np.inf)))
            out += [("n1", lo, up), ("n2", down, hi)]
    if len(shape) >= 1:
        out += [("f0", _full(shape, lo), _full(shape, hi)), ("m0", lo, _full(shape, hi))]
    if len(shape) >= 1 and size >= 2:
        out += [("f1", _full(shape, lo), _full_with(shape, hi, 0, hi2)),
                ("f2", _full_with(shape, lo, size - 1, lo2), _full(shape, hi))]
    if len(shape) >= 2:
        row = shape[-1:]
        out.append(("r0", _full(row, lo), _full(row, hi)))
        if row[0] >= 2:
            out.append(("r1", _full(row, lo), _full_with(row, hi, 0, hi2)))
    return out


# ---------------------------------------------------------------------------------- leaf universes
def array_recipes(names: Tuple[str, ...] = NAMES) -> List[Dict[str, Any]]:
    out = [{"t": "Array", "shape": list(sh), "dtype": dt, "name": nm} for sh in SHAPES for dt in DTYPES for nm in names]
    # dtype canonicalisation: 64-bit requests are distinct recipes of specs equal to the 32-bit ones
    for sh in ((), (2,)):
        for dt in ("float64", "int64"):
            for nm in names[:2]:
                out.append({"t": "Array", "shape": list(sh), "dtype": dt, "name": nm})
    return out


def bounded_recipes(dtypes: Tuple[str, ...] = DTYPES, names: Tuple[str, ...] = NAMES) -> List[Dict[str, Any]]:
    out = []
    for dt in dtypes:
        for sh in SHAPES:
            for vid, mn, mx in bound_variants(sh, dt):
                for nm in names:
                    out.append({"t": "BoundedArray", "shape": list(sh), "dtype": dt, "minimum": mn, "maximum": mx,
                                "name": nm, "variant": vid})
    return out


def discrete_recipes(names: Tuple[str, ...] = NAMES) -> List[Dict[str, Any]]:
    return [{"t": "DiscreteArray", "num_values": n, "dtype": dt, "name": nm}
            for n in DISCRETE_NUM_VALUES for dt in INT_DTYPES for nm in names]


def multi_recipes(names: Tuple[str, ...] = NAMES) -> List[Dict[str, Any]]:
    return [{"t": "MultiDiscreteArray", "num_values": nv, "dtype": dt, "name": nm}
            for nv in MULTI_NUM_VALUES for dt in INT_DTYPES for nm in names]


LEAF_UNIVERSE = {"Array": array_recipes, "BoundedArray": bounded_recipes, "DiscreteArray": discrete_recipes,
                 "MultiDiscreteArray": multi_recipes}


# ---------------------------------------------------------------------------------- nested universe
def leaf_pool() -> List[Dict[str, Any]]:
    B = lambda mn, mx, sh=(2,), dt="int32", nm="": {"t": "BoundedArray", "shape": list(sh), "dtype": dt,  # noqa: E731
                                                     "minimum": mn, "maximum": mx, "name": nm}
    M = lambda nv, nm="": {"t": "MultiDiscreteArray", "num_values": nv, "dtype": "int32", "name": nm}  # noqa: E731
    return [
        {"t": "Array", "shape": [], "dtype": "int32", "name": ""},
        {"t": "Array", "shape": [2], "dtype": "float32", "name": "a"},
        B(0, 1), B([0, 0], [1, 1]), B(0, [1, 2]), B(-1.5, 2.5, (), "float32"),
        {"t": "DiscreteArray", "num_values": 3, "dtype": "int32", "name": ""},
        {"t": "DiscreteArray", "num_values": 2, "dtype": "int32", "name": "a"},
        M([2, 2]), M([2]), M([2, 3]), M([2, 3, 4]),
    ]


def nested_recipes() -> List[Dict[str, Any]]:
    """Depth-1 trees: both binary constructors over all ordered leaf pairs, the unary constructor over
    all leaves, the differently-named binary constructor over a few. Depth-2 trees: binary
    constructors over (inner in a set of depth-1 trees) x (leaf in a small set)."""
    P = leaf_pool()
    out: List[Dict[str, Any]] = []
    for ctor in ("NT2", "DC2"):
        for i, a in enumerate(P):
            for j, b in enumerate(P):
                out.append({"t": "Spec", "ctor": ctor, "name": "n" if (i + j) % 2 else "", "children": {"x": a, "y": b}})
    for a in P:
        out.append({"t": "Spec", "ctor": "NT1", "name": "u", "children": {"x": a}})
    for a in P[2:5]:
        out.append({"t": "Spec", "ctor": "NT2Z", "name": "z", "children": {"x": a, "z": P[0]}})
    inner_b, inner_m, outer_y = P[2:5], [P[8], P[9], P[11]], [P[0], P[6], P[7]]
    for octor in ("NT2", "DC2"):
        for ictor in ("NT2", "DC2"):
            for b in inner_b:
                for m in inner_m:
                    inner = {"t": "Spec", "ctor": ictor, "name": "in", "children": {"x": b, "y": m}}
                    for y in outer_y:
                        out.append({"t": "Spec", "ctor": octor, "name": "out", "children": {"x": inner, "y": y}})
    return out


def nested_validation_subset(recipes: List[Dict[str, Any]]) -> List[int]:
    """Indices of the nested specs that get the full value alphabet: depth-1 trees whose two leaves are
    pool neighbours (every leaf appears in both positions), all unary trees and all depth-2 trees."""
    P = leaf_pool()
    n = len(P)
    keep = []
    for idx, r in enumerate(recipes):
        kids = list(r["children"].values())
        if any(k["t"] == "Spec" for k in kids) or len(kids) == 1 or r["ctor"] == "NT2Z":
            keep.append(idx)
            continue
        i, j = P.index(kids[0]), P.index(kids[1])
        if (j - i) % n in (0, 1):
            keep.append(idx)
    return keep


# ---------------------------------------------------------------------------------- environment specs
WHICH = ("observation_spec", "action_spec", "reward_spec", "discount_spec")
EXTRA_DEFAULTS = {"job_shop": "JobShop()", "multi_cvrp": "MultiCVRP()"}


def env_ctors(tier: str) -> List[Tuple[str, str, str]]:
    """(model name, family, constructor expression): per family the registry default and the first
    tiny configuration (quick); every catalogue configuration (thorough)."""
    from mc import catalog

    out: List[Tuple[str, str, str]] = []
    for fam in catalog.FAMILIES:
        cfgs = [c for c in catalog.CATALOG if c.family == fam]
        if tier == "thorough":
            pick = cfgs
        else:
            pick = [c for c in cfgs if c.kind == "default"][:1] + [c for c in cfgs if c.kind == "tiny"][:1]
            if not pick:
                pick = cfgs[:1]
        have_default = any(c.kind == "default" for c in pick)
        for c in pick:
            out.append((c.name, fam, c.ctor))
        if not have_default and fam in EXTRA_DEFAULTS:
            out.append((f"{fam}-default", fam, EXTRA_DEFAULTS[fam]))
    return out


def walk(spec: Any, path: Tuple[str, ...] = ()) -> Iterator[Tuple[Tuple[str, ...], Any]]:
    """All nodes (nested and leaf) of a spec tree with their paths (public surface only)."""
    from jumanji import specs

    yield path, spec
    if not isinstance(spec, specs.Array):
        for k, c in ref.spec_children(spec).items():
            yield from walk(c, path + (k,))


# ---------------------------------------------------------------------------------- nested values
STRUCT_OPS = ("missing", "extra", "renamed")
STRUCT_FLAVOURS = ("nt", "ns")  # rebuilt as a named tuple / as an object with a __dict__
STRUCT_ATOMS = ("array", "nparray", "none")  # an array (or None) where a container is expected


def leaf_paths(view: ref.View, path: Tuple[str, ...] = ()) -> Iterator[Tuple[Tuple[str, ...], ref.View]]:
    if view.kind != "Spec":
        yield path, view
        return
    for k, c in view.children.items():
        yield from leaf_paths(c, path + (k,))


def nested_paths(view: ref.View, path: Tuple[str, ...] = ()) -> Iterator[Tuple[Tuple[str, ...], ref.View]]:
    if view.kind == "Spec":
        yield path, view
        for k, c in view.children.items():
            yield from nested_paths(c, path + (k,))


def field_tree(value: Any, view: ref.View) -> Any:
    """Container value -> nested dict following the view (leaves stay as they are)."""
    if view.kind != "Spec":
        return value
    f = ref.fields_of(value)
    return {k: field_tree(f[k], c) for k, c in view.children.items()}


def rebuild(proto: Any, view: ref.View, tree: Any) -> Any:
    """Nested dict -> container value of the same types as `proto`; anything that is not a dict
    (a substituted leaf value or a mutated container) is passed through unchanged."""
    if view.kind != "Spec" or not isinstance(tree, dict):
        return tree
    f = ref.fields_of(proto)
    kw = {k: rebuild(f[k], c, tree[k]) for k, c in view.children.items()}
    return type(proto)(**kw)


def set_path(tree: Any, path: Tuple[str, ...], x: Any) -> Any:
    if not path:
        return x
    out = dict(tree)
    out[path[0]] = set_path(tree[path[0]], path[1:], x)
    return out


def get_path(value: Any, path: Tuple[str, ...]) -> Any:
    for k in path:
        value = ref.fields_of(value)[k]
    return value


def mutate_container(container: Any, op: str, flavour: str = "nt") -> Any:
    import collections
    import types

    import jax.numpy as jnp

    if op == "array":
        return jnp.zeros((), jnp.float32)
    if op == "nparray":
        return np.zeros((), np.float32)
    if op == "none":
        return None
    f = ref.fields_of(container)
    keys = list(f)
    if op == "missing":
        f = {k: f[k] for k in keys[:-1]}
    elif op == "extra":
        f = dict(f, zz_extra=jnp.zeros((), jnp.int32))
    elif op == "renamed":
        f = {(k + "_r" if i == 0 else k): f[k] for i, k in enumerate(keys)}
    else:
        raise ValueError(op)
    if flavour == "ns":
        return types.SimpleNamespace(**f)
    return collections.namedtuple("Mut", list(f))(**f)


def build_value(spec: Any, view: ref.View, vr: Dict[str, Any]) -> Any:
    """Value recipe -> value.  Recipes: {"generate": true} | leaf recipe (ref.value_recipe) |
    {"subst": {"path": [...], "leaf": <leaf recipe>}} | {"struct": {"at": [...], "op": ..., "flavour": ...}}."""
    if vr.get("generate"):
        return spec.generate_value()
    if "subst" in vr or "struct" in vr:
        gen = spec.generate_value()
        tree = field_tree(gen, view)
        if "subst" in vr:
            path = tuple(vr["subst"]["path"])
            return rebuild(gen, view, set_path(tree, path, ref.build_leaf_value(vr["subst"]["leaf"])))
        st = vr["struct"]
        at = tuple(st["at"])
        mutated = mutate_container(get_path(gen, at), st["op"], st.get("flavour", "nt"))
        return rebuild(gen, view, set_path(tree, at, mutated))
    return ref.build_leaf_value(vr)


def nested_value_recipes(view: ref.View, idx_cap: int) -> Iterator[Dict[str, Any]]:
    """The value alphabet of a nested spec: generate_value() with one leaf replaced by each value of
    that leaf's alphabet, and with each container node damaged in each way."""
    for path, lv in leaf_paths(view):
        for tag, form, arr in ref.leaf_alphabet(lv, idx_cap):
            yield {"subst": {"path": list(path), "leaf": ref.value_recipe(tag, form, arr)}}
    for at, _ in nested_paths(view):
        for op in STRUCT_OPS:
            for fl in STRUCT_FLAVOURS:
                yield {"struct": {"at": list(at), "op": op, "flavour": fl}}
        for op in STRUCT_ATOMS:
            yield {"struct": {"at": list(at), "op": op}}
