"""C02, part (4): instances that SHARE a component (a generator object, or the argument object a generator was
built from) must behave like instances with components of their own.

"Calling on a fresh instance with the same configuration gives the same result" is also a statement about the
objects a configuration is made of: two environments may be handed the same generator, two generators the same
database array.  A component that caches the instance it hands out, writes into the array it was given, or keeps
per-call state couples such instances through Python state that never appears in `state`/`key`.

One task per shipped generator class found in the catalogue (first tiny/awkward configuration using it), plus
manual entries for components built from caller-owned arrays.  For each entry, with a fresh shared component per
history, two environments `a` and `b` are built around it and ALL sequences of length <= L over

    a.reset(k0) | b.reset(k1) | jit(a.reset)(k1) | a.step(s0,a0) | a.step(s1,a1) | b.step(t0,b0)   (eager unless marked jit)

are run (L = 2; generator entries use the first four calls and L = 3 in the thorough tier for cheap-eager
families; shared reward functions and shared argument arrays use all six calls at L = 2).  s0 / t0 = the reference reset states of a / b for
k0 / k1, a0 / b0 = the first action that keeps them alive, s1 = the reference successor of (s0, a0), a1 = the first
action that keeps s1 alive or, if every action ends the episode there, the one with the smallest non-zero |reward|
(the episode-completing one), so that a step that pays the final reward is part of the alphabet.
Shared reward functions: the same is done for ONE reward-function object handed to two environments of DIFFERENT
sizes (a reward function that remembers a size, a normaliser or an episode flag of the first environment it served
couples them).  After
every call the result must equal the reference (the same call under jit on environments whose components are
their own), the arguments must be intact, and every result object handed out earlier in the history must still be
readable and hold the values it had when returned (a later traced call writing tracers into an object an eager
call returned shows here).  The shared argument objects are snapshotted before construction and must be
unchanged at the end of every history.
"""
from __future__ import annotations

import itertools
import re
import time
from typing import Any, Dict, List, Optional, Tuple

from mc import boot  # noqa: F401

import jax
import jax.numpy as jnp
import numpy as np

from mc import catalog
from mc.c02_core import PID, SLOW_HISTORY, Held, action_set, as_jnp, canon, guarded, prng
from mc.engine import leaf_diff
from mc.report import Violation

CALLS = ("a.reset(k0)", "b.reset(k1)", "jit a.reset(k1)", "a.step(s0,a0)", "a.step(s1,a1)", "b.step(t0,b0)")
K0, K1 = 0, 1


def _balanced(s: str, start: int) -> int:
    """index just past the parenthesis group opening at s[start] == '('"""
    depth = 0
    for i in range(start, len(s)):
        if s[i] == "(":
            depth += 1
        elif s[i] == ")":
            depth -= 1
            if depth == 0:
                return i + 1
    raise ValueError(s)


def entries() -> List[Dict[str, Any]]:
    """One entry per generator class used by a tiny/awkward catalogue configuration (first one using it)."""
    out: List[Dict[str, Any]] = []
    seen = set()
    for c in catalog.CATALOG:
        if c.kind not in ("tiny", "awkward"):
            continue
        m = re.search(r"G\.(\w+)\.(\w+)\(", c.ctor)
        if not m:
            continue
        cls = f"{m.group(1)}.{m.group(2)}"
        if cls in seen:
            continue
        seen.add(cls)
        end = _balanced(c.ctor, m.end() - 1)
        gen = c.ctor[m.start():end]
        tmpl = c.ctor[:m.start()] + "GEN" + c.ctor[end:]
        tmpl_b = tmpl
        if c.family == "bin_pack":  # the second environment differs in a parameter that shapes per-reset cached fields
            tmpl_b = (re.sub(r"obs_num_ems=\d+", "obs_num_ems=7", tmpl) if "obs_num_ems=" in tmpl
                      else tmpl[:-1] + ", obs_num_ems=7)")
        out.append(dict(name=f"shared-{cls}", family=c.family, shared={}, gen=gen, env_a=tmpl, env_b=tmpl_b,
                        share="generator"))
    out.append(dict(name="shared-pac_man.AsciiGenerator", family="pac_man", shared={},
                    gen="M.pac_man.generator.AsciiGenerator(M.pac_man.constants.DEFAULT_MAZE)",
                    env_a="PacMan(generator=GEN, time_limit=3)", env_b="PacMan(generator=GEN, time_limit=3)", share="generator"))
    # ONE reward-function object serving two environments of different sizes
    for fam, rw, env_a, env_b in [
        ("tsp", "R.tsp.SparseReward()", "TSP(G.tsp.UniformGenerator(2), reward_fn=GEN)", "TSP(G.tsp.UniformGenerator(3), reward_fn=GEN)"),
        ("tsp", "R.tsp.DenseReward()", "TSP(G.tsp.UniformGenerator(2), reward_fn=GEN)", "TSP(G.tsp.UniformGenerator(3), reward_fn=GEN)"),
        ("cvrp", "R.cvrp.SparseReward()", "CVRP(G.cvrp.UniformGenerator(1, 10, 5), reward_fn=GEN)",
         "CVRP(G.cvrp.UniformGenerator(3, 10, 5), reward_fn=GEN)"),
        ("cvrp", "R.cvrp.DenseReward()", "CVRP(G.cvrp.UniformGenerator(1, 10, 5), reward_fn=GEN)",
         "CVRP(G.cvrp.UniformGenerator(3, 10, 5), reward_fn=GEN)"),
        ("knapsack", "R.knapsack.SparseReward()", "Knapsack(G.knapsack.RandomGenerator(2, 5.0), reward_fn=GEN)",
         "Knapsack(G.knapsack.RandomGenerator(4, 1.0), reward_fn=GEN)"),
        ("knapsack", "R.knapsack.DenseReward()", "Knapsack(G.knapsack.RandomGenerator(2, 5.0), reward_fn=GEN)",
         "Knapsack(G.knapsack.RandomGenerator(4, 1.0), reward_fn=GEN)"),
        ("flat_pack", "R.flat_pack.CellDenseReward()", "FlatPack(G.flat_pack.RandomFlatPackGenerator(1, 2), reward_fn=GEN)",
         "FlatPack(G.flat_pack.RandomFlatPackGenerator(2, 2), reward_fn=GEN)"),
        ("flat_pack", "R.flat_pack.BlockDenseReward()", "FlatPack(G.flat_pack.RandomFlatPackGenerator(1, 2), reward_fn=GEN)",
         "FlatPack(G.flat_pack.RandomFlatPackGenerator(2, 2), reward_fn=GEN)"),
        ("sliding_tile_puzzle", "R.sliding_tile_puzzle.DenseRewardFn()",
         "SlidingTilePuzzle(G.sliding_tile_puzzle.RandomWalkGenerator(2, 1), reward_fn=GEN, time_limit=3)",
         "SlidingTilePuzzle(G.sliding_tile_puzzle.RandomWalkGenerator(3, 1), reward_fn=GEN, time_limit=3)"),
        ("sliding_tile_puzzle", "R.sliding_tile_puzzle.SparseRewardFn()",
         "SlidingTilePuzzle(G.sliding_tile_puzzle.RandomWalkGenerator(2, 1), reward_fn=GEN, time_limit=3)",
         "SlidingTilePuzzle(G.sliding_tile_puzzle.RandomWalkGenerator(3, 1), reward_fn=GEN, time_limit=3)"),
        ("connector", "R.connector.DenseRewardFn()", "Connector(G.connector.UniformRandomGenerator(3, 1), reward_fn=GEN, time_limit=3)",
         "Connector(G.connector.UniformRandomGenerator(4, 2), reward_fn=GEN, time_limit=3)"),
        ("sokoban", "R.sokoban.DenseReward()", "Sokoban(G.sokoban.SimpleSolveGenerator(), reward_fn=GEN, time_limit=3)",
         "Sokoban(G.sokoban.ToyGenerator(), reward_fn=GEN, time_limit=2)"),
        ("sokoban", "R.sokoban.SparseReward()", "Sokoban(G.sokoban.SimpleSolveGenerator(), reward_fn=GEN, time_limit=3)",
         "Sokoban(G.sokoban.ToyGenerator(), reward_fn=GEN, time_limit=2)"),
        ("minesweeper", "R.minesweeper.DefaultRewardFn(1.0, 0.0, 0.0)",
         "Minesweeper(G.minesweeper.UniformSamplingGenerator(2, 2, 1), reward_function=GEN)",
         "Minesweeper(G.minesweeper.UniformSamplingGenerator(3, 4, 2), reward_function=GEN)"),
    ]:
        cls = rw.split("(")[0].replace("R.", "")
        out.append(dict(name=f"shared-reward-{cls}", family=fam, shared={}, gen=rw, env_a=env_a, env_b=env_b,
                        share="generator", quick=fam not in ("connector", "sokoban", "sliding_tile_puzzle")))
    # caller-owned database handed to two generators (and hence two environments)
    out.append(dict(name="shared-sudoku.DatabaseGenerator-database", family="sudoku",
                    shared={"DB": "INJ.sudoku_boards_int32()"}, gen="G.sudoku.DatabaseGenerator(DB)",
                    env_a="Sudoku(GEN)", env_b="Sudoku(GEN)", share="arguments"))
    out.append(dict(name="shared-sudoku.DatabaseGenerator", family="sudoku",
                    shared={"DB": "INJ.sudoku_boards_int32()"}, gen="G.sudoku.DatabaseGenerator(DB)",
                    env_a="Sudoku(GEN)", env_b="Sudoku(GEN)", share="generator"))
    return out


def _build(e: Dict[str, Any], own: bool) -> Tuple[Any, Any, Dict[str, Any], Dict[str, Any]]:
    """-> (env a, env b, shared objects, host snapshots of the shared objects).  own=True: nothing is shared."""
    ns = dict(catalog.namespace())

    def fresh_shared() -> Dict[str, Any]:
        return {k: eval(v, ns) for k, v in e["shared"].items()}  # noqa: S307 - our own expressions

    def make_gen(sh: Dict[str, Any]) -> Any:
        return eval(e["gen"], dict(ns, **sh))  # noqa: S307

    sh = fresh_shared()
    snap = {k: np.array(v, copy=True) for k, v in sh.items()}
    if own:
        a = eval(e["env_a"], dict(ns, GEN=make_gen(fresh_shared())))  # noqa: S307
        b = eval(e["env_b"], dict(ns, GEN=make_gen(fresh_shared())))  # noqa: S307
    elif e["share"] == "generator":
        g = make_gen(sh)
        a = eval(e["env_a"], dict(ns, GEN=g))  # noqa: S307
        b = eval(e["env_b"], dict(ns, GEN=g))  # noqa: S307
    else:  # two generators built from the same argument objects
        a = eval(e["env_a"], dict(ns, GEN=make_gen(sh)))  # noqa: S307
        b = eval(e["env_b"], dict(ns, GEN=make_gen(sh)))  # noqa: S307
    return a, b, sh, snap


def _alive_action(step_j: Any, state: Any, actions: np.ndarray) -> int:
    """first action that keeps `state` alive; if every action ends the episode, the one with the smallest non-zero
    |reward| (the episode-completing step rather than the penalised invalid one); else 0"""
    best, best_r = 0, None
    for i in range(min(len(actions), 16)):
        ts = canon(step_j(state, jnp.asarray(actions[i])))[1]
        if int(np.asarray(ts.step_type)) != 2:
            return i
        r = float(np.abs(np.asarray(ts.reward, np.float64)).sum())
        if r > 0 and (best_r is None or r < best_r):
            best, best_r = i, r
    return best


def _reference(e: Dict[str, Any]) -> Tuple[Dict[str, Any], Dict[str, Any]]:
    a, b, _, _ = _build(e, own=True)
    acts_a, _ = action_set(a, 64)
    acts_b, _ = action_set(b, 64)
    ra = canon(jax.jit(a.reset)(prng(K0)))
    ra1 = canon(jax.jit(a.reset)(prng(K1)))
    rb = canon(jax.jit(b.reset)(prng(K1)))
    s0, t0 = ra[0], rb[0]
    step_a, step_b = jax.jit(a.step), jax.jit(b.step)
    a0 = _alive_action(step_a, s0, acts_a)
    st = canon(step_a(s0, jnp.asarray(acts_a[a0])))
    s1 = st[0]
    a1 = _alive_action(step_a, s1, acts_a)
    st1 = canon(step_a(s1, jnp.asarray(acts_a[a1])))
    b0 = _alive_action(step_b, t0, acts_b)
    stb = canon(step_b(t0, jnp.asarray(acts_b[b0])))
    exp = {"a.reset(k0)": ra, "b.reset(k1)": rb, "jit a.reset(k1)": ra1, "a.step(s0,a0)": st, "a.step(s1,a1)": st1,
           "b.step(t0,b0)": stb}
    args = {"s0": s0, "a0": acts_a[a0], "s1": s1, "a1": acts_a[a1], "t0": t0, "b0": acts_b[b0]}
    return exp, args


def _call(name: str, a: Any, b: Any, args: Dict[str, Any]) -> Tuple[Any, List[str]]:
    if name == "a.reset(k0)":
        return guarded(a.reset, prng(K0))
    if name == "b.reset(k1)":
        return guarded(b.reset, prng(K1))
    if name == "jit a.reset(k1)":
        return guarded(jax.jit(lambda k: a.reset(k)), prng(K1))
    if name == "a.step(s0,a0)":
        return guarded(a.step, as_jnp(args["s0"]), jnp.asarray(args["a0"]))
    if name == "a.step(s1,a1)":
        return guarded(a.step, as_jnp(args["s1"]), jnp.asarray(args["a1"]))
    return guarded(b.step, as_jnp(args["t0"]), jnp.asarray(args["b0"]))


def run_history(e: Dict[str, Any], seq: Tuple[str, ...], exp: Dict[str, Any], args: Dict[str, Any]
                ) -> Tuple[int, Optional[Tuple[int, str, List[str]]]]:
    a, b, sh, snap = _build(e, own=False)
    held = Held()
    for n, name in enumerate(seq):
        try:
            out, mut = _call(name, a, b, args)
        except Exception as ex:  # noqa: BLE001
            return n + 1, (n, "shared-component-couples-instances", [f"call raised {type(ex).__name__}: {str(ex)[:300]}"])
        if mut:
            return n + 1, (n, "argument-mutated", mut)
        try:
            got = held.add(f"#{n + 1} {name}", out)
        except Exception as ex:  # noqa: BLE001
            return n + 1, (n, "shared-component-couples-instances", [f"result unreadable: {type(ex).__name__}: {str(ex)[:200]}"])
        d = leaf_diff(exp[name], got)
        if d:
            return n + 1, (n, "shared-component-couples-instances", d)
        try:
            ch = held.changed(skip_last=True)
        except Exception as ex:  # noqa: BLE001 - e.g. a tracer was written into an object returned earlier
            return n + 1, (n, "earlier-result-changed-by-later-call",
                           [f"a result object handed out earlier can no longer be read after call #{n + 1} {name}: "
                            f"{type(ex).__name__}: {str(ex)[:200]}"])
        if ch:
            return n + 1, (n, "earlier-result-changed-by-later-call",
                           [f"result object of call {ch[1]} changed after call #{n + 1} {name}"] + ch[2])
    for k, v in sh.items():
        now = np.asarray(v)
        if now.shape != snap[k].shape or now.dtype != snap[k].dtype or not np.array_equal(now, snap[k]):
            return len(seq), (len(seq) - 1, "constructor-argument-mutated",
                              [f"the caller's object {k} handed to the generator was modified "
                               f"(first values {now.ravel()[:6].tolist()} vs {snap[k].ravel()[:6].tolist()})"])
    return len(seq), None


def check_entry(entry: Dict[str, Any], tier: str, seed: int, model: str = "") -> Dict[str, Any]:
    t0 = time.time()
    e = entry
    wide = e["name"].startswith("shared-reward") or e["share"] == "arguments"
    # thorough: length 3 over the four-call alphabet (cheap-eager families); the six-call alphabet stays at length 2
    L = 3 if (tier == "thorough" and e["family"] not in SLOW_HISTORY and not wide) else 2
    exp, args = _reference(e)
    viol: List[Violation] = []
    n_by: Dict[str, int] = {}
    n_calls = 0
    # slow-eager families (static table): the four-call alphabet without the second step of a and the step of b
    # quick tier: the six-call alphabet only where the second environment's step matters (shared reward functions,
    # shared argument arrays); otherwise the four-call alphabet
    calls = CALLS if wide else CALLS[:4]
    seqs = list(itertools.product(calls, repeat=L))
    for seq in seqs:
        n, bad = run_history(e, seq, exp, args)
        n_calls += n
        if bad:
            i, what, d = bad
            sig = f"{e['family']}:{what}"
            n_by[sig] = n_by.get(sig, 0) + 1
            if n_by[sig] <= 2:
                viol.append(Violation(PID, e["name"], sig,
                                      f"{e['name']} (sharing the {e['share']}): call #{i + 1} {seq[i]} after {list(seq[:i])}: {d[:4]}",
                                      {"kind": "shared", "entry": e, "history": list(seq[: i + 1]), "property": PID,
                                       "signature": sig, "model": e["name"]}))
        if len(seqs) > 16:
            jax.clear_caches()
    n_hist = sum(len(calls) ** l for l in range(1, L + 1))
    return {
        "model": e["name"], "family": e["family"], "kind": "shared-component", "ctor": e["env_a"].replace("GEN", e["gen"]),
        "states": n_hist, "transitions": n_calls, "validated": n_calls, "exhaustive": True,
        "history_length": L, "history_alphabet": list(calls), "shares": e["share"],
        "vacuity": {"n_shared_histories": n_hist, "n_shared_calls": n_calls, "n_eager": n_calls},
        "violations": viol, "violation_counts": n_by, "total_s": round(time.time() - t0, 2),
        "samples": [{"model": e["name"], "what": "history on two environments sharing a component", "history": list(seqs[len(seqs) // 3])}],
    }


def replay_case(r: Dict[str, Any]) -> int:
    e = r["entry"]
    exp, args = _reference(e)
    n, bad = run_history(e, tuple(r["history"]), exp, args)
    if bad:
        print(f"  history {r['history']} on environments sharing the {e['share']}: call #{bad[0] + 1} -> {bad[1]}: {bad[2][:6]}")
        return 1
    print(f"  history {r['history']}: every call equals the result on environments with components of their own")
    return 0
