"""Explicit-state model checking of instadeepai/jumanji (see /verif/DESIGN.md)."""
