"""Shared driver for the properties decided by exploring the env transition graph (C01, C03-C09,
C11, C12): one worker task per catalogue configuration, monitors supplied by mc.checks.<id>."""
from __future__ import annotations

import importlib
import time
from typing import Any, Dict, List, Optional, Sequence

from mc import boot
from mc import catalog
from mc.report import Reporter
from mc.runner import run_tasks


def explore_model(pid: str, cfg_name: str, tier: str, seed: int, **kw: Any) -> Dict[str, Any]:
    """Worker: explore one configuration with the monitors of property `pid`."""
    from mc.engine import Explorer

    cfg = catalog.BY_NAME[cfg_name]
    mod = importlib.import_module(f"mc.checks.{pid.lower()}")
    t0 = time.time()
    env = cfg.make()
    plan = mod.plan(cfg, env, tier)  # dict: monitors, and optional Explorer kwargs
    if plan is None:
        return {"model": cfg_name, "skipped": True, "states": 0, "transitions": 0}
    monitors = plan.pop("monitors")
    pre = plan.pop("pre", None)
    exkw: Dict[str, Any] = dict(
        keys=cfg.keys(tier),
        max_depth=cfg.depth,
        max_states=cfg.max_states(tier),
        seed=seed,
        ctor=cfg.ctor,
        eager_budget_s=5.0 if tier == "quick" else 20.0,
        eager_max_paths=3 if tier == "quick" else 10,
        time_budget_s=100.0 if tier == "quick" else 900.0,
    )
    exkw.update(plan)
    ex = Explorer(env, cfg_name, pid, monitors=monitors, **exkw)
    if pre is not None:
        pre(ex)
    res = ex.run()
    res["family"] = cfg.family
    res["kind"] = cfg.kind
    res["setup_s"] = round(time.time() - t0 - res["total_s"], 2)
    return res


def run_property(pid: str, tier: str, seed: int, cfgs: Sequence[catalog.Cfg],
                 assumptions: Sequence[str] = (), require: Sequence[str] = (),
                 extra_tasks: Sequence[Any] = ()) -> Reporter:
    rep = Reporter(pid, tier, seed)
    rep.assumptions += list(assumptions)
    tasks = [("mc.graphprops", "explore_model", dict(pid=pid, cfg_name=c.name, tier=tier, seed=seed))
             for c in cfgs]
    tasks += list(extra_tasks)
    run_tasks(rep, tasks)
    if require:
        rep.require_positive(*require)
    return rep
