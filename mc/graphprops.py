"""Shared driver for the properties decided by exploring the env transition graph (C01, C03-C09,
C11, C12): one worker task per catalogue configuration, monitors supplied by mc.checks.<id>."""
from __future__ import annotations

import importlib
import time
from typing import Any, Dict, List, Optional, Sequence

from mc import boot
from mc import catalog
from mc.report import Reporter
from mc.runner import run_tasks


def choose_alphabet(env: Any) -> Any:
    """-> (actions | None, note | None).  None = the complete alphabet of the action spec.  A joint alphabet beyond
    enumeration (default Connector: 5**10) is replaced by 256 evenly spaced members, one whose successors would
    take more than 250 MB per expanded state (default MMST: 36**3 actions, 1.3 GB) by 1024; such a model is
    never reported as closed."""
    import jax
    import numpy as np

    from mc.engine import all_actions, spaced_actions

    try:
        n_all = len(all_actions(env.action_spec))
    except ValueError:
        acts, total = spaced_actions(env.action_spec, 256)
        return acts, f"{len(acts)} evenly spaced members of an alphabet of {total}"
    shp = jax.eval_shape(env.reset, jax.random.PRNGKey(0))
    pair = sum(int(np.prod(x.shape)) * x.dtype.itemsize for x in jax.tree_util.tree_leaves(shp))
    if n_all * pair > 250e6:
        acts, total = spaced_actions(env.action_spec, 1024)
        return acts, f"{len(acts)} evenly spaced members of an alphabet of {total} (memory bound)"
    return None, None


def explore_model(pid: str, cfg_name: str, tier: str, seed: int, **kw: Any) -> Dict[str, Any]:
    """Worker: explore one configuration with the monitors of property `pid`."""
    from mc.engine import Explorer

    cfg = catalog.BY_NAME[cfg_name]
    mod = importlib.import_module(f"mc.checks.{pid.lower()}")
    t0 = time.time()
    env = cfg.make()
    plan = mod.plan(cfg, env, tier)  # dict: monitors, and optional Explorer kwargs
    if plan is None:
        return {"model": cfg_name, "skipped": True, "states": 0, "transitions": 0}
    monitors = plan.pop("monitors")
    pre = plan.pop("pre", None)
    exkw: Dict[str, Any] = dict(
        keys=cfg.keys(tier, env),
        max_depth=cfg.depth_for(tier),
        max_states=cfg.max_states(tier),
        seed=seed,
        ctor=cfg.ctor,
        eager_budget_s=5.0 if tier == "quick" else 20.0,
        eager_max_paths=3 if tier == "quick" else 10,
        time_budget_s=100.0 if tier == "quick" else 900.0,
    )
    exkw.update(plan)
    sub_alphabet = None
    if exkw.get("actions") is None:
        exkw["actions"], sub_alphabet = choose_alphabet(env)
    ex = Explorer(env, cfg_name, pid, monitors=monitors, **exkw)
    if pre is not None:
        pre(ex)
    res = ex.run()
    if sub_alphabet:
        res["alphabet"] = sub_alphabet
        res["closed"] = False
        res["cap"] = res.get("cap") or "sub-alphabet"
    res["family"] = cfg.family
    res["kind"] = cfg.kind
    res["setup_s"] = round(time.time() - t0 - res["total_s"], 2)
    return res


def run_property(pid: str, tier: str, seed: int, cfgs: Sequence[catalog.Cfg],
                 assumptions: Sequence[str] = (), require: Sequence[str] = (),
                 extra_tasks: Sequence[Any] = ()) -> Reporter:
    rep = Reporter(pid, tier, seed)
    rep.assumptions += list(assumptions)
    tasks = [("mc.graphprops", "explore_model", dict(pid=pid, cfg_name=c.name, tier=tier, seed=seed))
             for c in cfgs]
    tasks += list(extra_tasks)
    run_tasks(rep, tasks)
    import os

    if require and not (os.environ.get("VERIF_FAMILIES") or os.environ.get("VERIF_MODELS")):
        rep.require_positive(*require)
    return rep


def replay(pid: str, doc: Dict[str, Any]) -> int:
    """Re-run one recorded counterexample: plain eager loop (printed), then the property's monitors on
    exactly that path. Returns 1 if the violation reproduces."""
    import jax
    import jax.numpy as jnp
    import numpy as np

    from mc.checks import horizon
    from mc.engine import Explorer, replay_path, to_np

    rdoc = doc.get("replay", doc)
    name = rdoc["model"].split("@")[0]
    cfg = catalog.BY_NAME[name]
    env = eval(rdoc["ctor"], catalog.namespace())  # noqa: S307
    mod = importlib.import_module(f"mc.checks.{pid.lower()}")
    if rdoc.get("kind") == "static":
        plan = mod.plan(cfg, env, "quick")
        ex = Explorer(env, rdoc["model"], pid, keys=[0], monitors=plan["monitors"], max_depth=0, ctor=rdoc["ctor"])
        if plan.get("pre"):
            plan["pre"](ex)
        res = ex.run()
        hit = [v for v in res["violations"] if v.signature == rdoc.get("signature")]
        print(f"replay(static): {len(hit)} matching violation(s)")
        return 1 if hit else 0
    injected = None
    if "injected_root" in rdoc:
        if isinstance(rdoc["injected_root"], dict) and "injection" in rdoc["injected_root"]:
            from mc.checks import scenarios
            from mc.engine import t_index

            d = rdoc["injected_root"]
            states, tss, descs, _ = scenarios.build_roots(env, rdoc["model"], int(d.get("reset_key_seed", 0)))
            idx = next(i for i, x in enumerate(descs) if x == d)
            injected = (jax.tree_util.tree_map(jnp.asarray, t_index(states, idx)),
                        jax.tree_util.tree_map(jnp.asarray, t_index(tss, idx)))
        else:
            injected = horizon.rebuild_root(env, rdoc["injected_root"])
    path = replay_path(env, rdoc, injected)
    for t, (s, ts) in enumerate(path):
        print(f"  t={t} step_type={int(ts.step_type)} reward={np.asarray(ts.reward).tolist()} "
              f"discount={np.asarray(ts.discount).tolist()}" + (f" action={rdoc['actions'][t-1]}" if t else ""))
    plan = mod.plan(cfg, env, "quick")
    s0, ts0 = path[0]
    roots = jax.tree_util.tree_map(lambda x: np.asarray(x)[None], to_np(jax.tree_util.tree_map(jnp.asarray, (s0, ts0))))
    acts = rdoc["action_indices"]

    def enabled_fn(par, actions):
        out = np.zeros((len(par), len(actions)), bool)
        for j, nid in enumerate(par.ids):
            d = ex.depth[int(nid)]
            if d < len(acts):
                out[j, acts[d]] = True
        return out

    kw = {k: v for k, v in plan.items() if k not in ("monitors", "pre")}
    kw.pop("enabled_fn", None)
    ex = Explorer(env, rdoc["model"], pid, roots=roots, root_desc=[rdoc.get("injected_root", {"reset_key_seed": rdoc.get("reset_key_seed")})],
                  monitors=plan["monitors"], max_depth=len(acts), enabled_fn=enabled_fn, ctor=rdoc["ctor"],
                  eager_max_paths=0, **{k: v for k, v in kw.items() if k in ("post_terminal",)})
    ex.injected_roots = "injected_root" in rdoc
    res = ex.run()
    sigs = {v.signature for v in res["violations"]}
    want = rdoc.get("signature")
    print(f"replay: signatures reproduced on this path: {sorted(sigs)}")
    return 1 if (want in sigs or (want is None and sigs)) else 0
