import warnings; warnings.filterwarnings("ignore")
import numpy as np, jax, jax.numpy as jnp
import dm_env
from jumanji.environments import *
from jumanji.wrappers import *
from jumanji.environments.routing.sokoban.generator import ToyGenerator as SokToy
envs = {
 "Game2048": lambda: Game2048(2), "GraphColoring": lambda: GraphColoring(), "Minesweeper": lambda: Minesweeper(),
 "RubiksCube": lambda: RubiksCube(time_limit=2), "SlidingTilePuzzle": lambda: SlidingTilePuzzle(time_limit=2), "Sudoku": lambda: Sudoku(),
 "BinPack": lambda: BinPack(), "FlatPack": lambda: FlatPack(), "JobShop": lambda: JobShop(), "Knapsack": lambda: Knapsack(),
 "Tetris": lambda: Tetris(time_limit=2), "Cleaner": lambda: Cleaner(time_limit=2), "Connector": lambda: MultiToSingleWrapper(Connector(time_limit=2)), "CVRP": lambda: CVRP(),
 "LBF": lambda: MultiToSingleWrapper(LevelBasedForaging(time_limit=2)), "Maze": lambda: Maze(time_limit=2), "MMST": lambda: MMST(time_limit=2), "MultiCVRP": lambda: MultiCVRP(),
 "PacMan": lambda: PacMan(), "RobotWarehouse": lambda: RobotWarehouse(time_limit=2), "Snake": lambda: Snake(time_limit=2), "Sokoban": lambda: Sokoban(generator=SokToy(),time_limit=2),
 "TSP": lambda: TSP(),
}
def obs_eq(g, native):
    gn=jumanji_to_gym_obs(native)
    def cmp(a,b):
        if isinstance(a,dict): return all(cmp(a[k],b[k]) for k in a) and set(a)==set(b)
        return np.array_equal(np.asarray(a),np.asarray(b))
    return cmp(g,gn)
for name,mk in envs.items():
    try:
        env=mk(); msgs=[]
        G=JumanjiToGymWrapper(env,seed=5)
        key=jax.random.PRNGKey(5)
        for ep in range(2):
            o,info=G.reset()
            k,key=jax.random.split(key); s,ts=jax.jit(env.reset)(k)
            if not obs_eq(o,ts.observation): msgs.append(f"ep{ep} reset obs differs")
            if not G.observation_space.contains(o): msgs.append(f"ep{ep} reset obs not in space")
            for t in range(3):
                a=G.action_space.sample() if t else np.asarray(env.action_spec.generate_value())
                try: env.action_spec.validate(jnp.asarray(a))
                except Exception as e: msgs.append("sampled action invalid for spec: "+str(e)[:80])
                o,r,term,trunc,info=G.step(a)
                s,ts=jax.jit(env.step)(s,jnp.asarray(a))
                if not obs_eq(o,ts.observation): msgs.append(f"ep{ep} t{t} obs differs")
                if not G.observation_space.contains(o): msgs.append(f"ep{ep} t{t} obs not in space")
                if r!=float(ts.reward): msgs.append(f"reward {r} vs {float(ts.reward)}")
                if term!=bool(np.asarray(ts.discount)==0) or trunc!=bool(ts.last()): msgs.append(f"term/trunc {term},{trunc} vs disc {ts.discount} last {ts.last()}")
                if trunc: break
        D=JumanjiToDMEnvWrapper(env,key=jax.random.PRNGKey(5)); t0=D.reset()
        if not (t0.first() and t0.reward is None and t0.discount is None): msgs.append("dm first wrong")
        print(name,"OK" if not msgs else sorted(set(msgs))[:5],flush=True)
    except Exception as e:
        print(name,"EXC",type(e).__name__,str(e)[:300].replace("\n"," "),flush=True)
