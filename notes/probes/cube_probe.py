import warnings; warnings.filterwarnings("ignore")
import numpy as np, jax, jax.numpy as jnp, itertools
from jumanji.environments.logic.rubiks_cube.utils import generate_all_moves, flatten_action, unflatten_action, is_solved
from jumanji.environments.logic.rubiks_cube.constants import CubeMovementAmount
U,F,R,B,L,D=range(6)
def facelet_to_3d(n,f,r,c):
    # returns (pos xyz ints, normal)
    if f==U: return (c,n-1-r,n-1),(0,0,1)
    if f==F: return (c,0,n-1-r),(0,-1,0)
    if f==R: return (n-1,c,n-1-r),(1,0,0)
    if f==B: return (n-1-c,n-1,n-1-r),(0,1,0)
    if f==L: return (0,n-1-c,n-1-r),(-1,0,0)
    if f==D: return (c,r,0),(0,0,-1)
def build_maps(n):
    m={}
    for f in range(6):
        for r in range(n):
            for c in range(n):
                p,nm=facelet_to_3d(n,f,r,c); m[(p,nm)]=(f,r,c)
    assert len(m)==6*n*n
    return m
def rot(v, axis, k):
    # rotate vector v by k*90deg counterclockwise about +axis (right-hand rule), in centered coords
    x,y,z=v
    for _ in range(k%4):
        if axis==0: x,y,z = x,-z,y
        elif axis==1: x,y,z = z,y,-x
        else: x,y,z = -y,x,z
    return (x,y,z)
normals={U:(0,0,1),F:(0,-1,0),R:(1,0,0),B:(0,1,0),L:(-1,0,0),D:(0,0,-1)}
def ref_move(n, face, depth, amount_enum):
    """returns permutation array: new_cube.flat[i] = old_cube.flat[perm[i]]"""
    inv=build_maps(n)
    nm=normals[face]; axis=[i for i in range(3) if nm[i]!=0][0]; sign=nm[axis]
    # clockwise looking at face from outside = rotation by -90 about outward normal
    k={CubeMovementAmount.CLOCKWISE:-1, CubeMovementAmount.ANTI_CLOCKWISE:1, CubeMovementAmount.HALF_TURN:2}[amount_enum]
    k = k*sign  # rotation about +axis
    layer_coord = (n-1-depth) if sign>0 else depth
    perm=np.arange(6*n*n)
    for (p,nv),(f,r,c) in inv.items():
        if p[axis]!=layer_coord: continue
        # centered doubled coords
        pc=tuple(2*pi-(n-1) for pi in p)
        pr=rot(pc,axis,k); nr=rot(nv,axis,k)
        p2=tuple((a+(n-1))//2 for a in pr)
        f2,r2,c2=inv[(p2,nr)]
        perm[(f2*n+r2)*n+c2]=(f*n+r)*n+c
    return perm
for n in [2,3,4,5]:
    moves=generate_all_moves(n)
    cube=jnp.arange(6*n*n,dtype=jnp.int32).reshape(6,n,n)
    bad=0; idx=0
    for face in range(6):
        for depth in range(n//2):
            for amount in CubeMovementAmount:
                out=np.array(moves[idx](cube)).ravel()
                exp=ref_move(n,face,depth,amount)
                if not (out==exp).all(): bad+=1; print("n",n,"face",face,"depth",depth,amount,"MISMATCH", (out!=exp).sum())
                idx+=1
    print("n",n,"moves",idx,"mismatches",bad)
