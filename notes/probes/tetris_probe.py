import warnings; warnings.filterwarnings("ignore")
import numpy as np, jax, jax.numpy as jnp
from jumanji.environments import Tetris
from jumanji.environments.packing.tetris.constants import TETROMINOES_LIST, REWARD_LIST
T=np.array(TETROMINOES_LIST)
def ref_legal_and_drop(grid, piece, x):
    """grid: (R,C) 0/1; piece 4x4 0/1; drop piece with its 4x4 box's left column at x from above.
    returns (legal, new_grid, lines)"""
    R,C=grid.shape
    cells=np.argwhere(piece>0)
    w=cells[:,1].max()+1
    if x+w>C: return False,None,0
    def fits(y):
        for r,c in cells:
            rr=y+r; cc=x+c
            if rr>=R: return False
            if rr>=0 and grid[rr,cc]: return False
        return True
    y=-4
    if not fits(y): return False,None,0
    while fits(y+1): y+=1
    # all cells must be inside grid (rr>=0)
    if any(y+r<0 for r,c in cells): return False,None,0
    g=grid.copy()
    for r,c in cells: g[y+r,x+c]=1
    full=g.all(axis=1); k=int(full.sum())
    g2=np.concatenate([np.zeros((k,C),int), g[~full]],axis=0)
    return True,g2,k
bad_mask=0; bad_step=0; nstates=0
for (R,C) in [(4,4),(5,4),(6,5),(10,10)]:
    env=Tetris(num_rows=R,num_cols=C,time_limit=60)
    step=jax.jit(env.step); reset=jax.jit(env.reset)
    for k in range(6):
        s,ts=reset(jax.random.PRNGKey(k))
        for t in range(60):
            grid=(np.array(s.grid_padded)[:R,:C]>0).astype(int); ti=int(s.tetromino_index)
            mask=np.array(ts.observation.action_mask)
            ref=np.zeros((4,C),bool); outs={}
            for rot in range(4):
                for x in range(C):
                    ok,g2,kk=ref_legal_and_drop(grid,T[ti,rot],x); ref[rot,x]=ok; outs[(rot,x)]=(g2,kk)
            nstates+=1
            if not (ref==mask).all():
                bad_mask+=1
                if bad_mask<4: print("MASK MISMATCH",R,C,"key",k,"t",t,"piece",ti,"\n",grid,"\nimpl\n",mask.astype(int),"\nref\n",ref.astype(int))
            legal=np.argwhere(mask)
            if len(legal)==0: break
            a=legal[(t*7+k)%len(legal)]
            s2,ts2=step(s,jnp.array(a))
            g2,kk=outs[tuple(a)]
            if g2 is not None:
                gi=(np.array(s2.grid_padded)[:R,:C]>0).astype(int)
                if not (gi==g2).all() or float(ts2.reward)!=REWARD_LIST[kk]:
                    bad_step+=1
                    if bad_step<4: print("STEP MISMATCH",R,C,k,t,a,"\nimpl\n",gi,"\nref\n",g2,float(ts2.reward),REWARD_LIST[kk])
            s,ts=s2,ts2
            if int(ts.step_type)==2: break
print("states",nstates,"mask mismatches",bad_mask,"step mismatches",bad_step)
