import warnings; warnings.filterwarnings("ignore")
import numpy as np, jax, jax.numpy as jnp, time
from jumanji.environments import *
from jumanji.environments.routing.sokoban.generator import ToyGenerator as SokToy
from jumanji.environments.routing.maze.generator import ToyGenerator as MazeToy
from jumanji.environments.packing.flat_pack.generator import ToyFlatPackGeneratorNoRotation
from jumanji.environments.packing.bin_pack.generator import ToyGenerator as BPToy
from jumanji.environments.packing.job_shop.generator import ToyGenerator as JSToy
envs = {
 "Game2048": lambda: Game2048(), "GraphColoring": lambda: GraphColoring(), "Minesweeper": lambda: Minesweeper(),
 "RubiksCube": lambda: RubiksCube(), "SlidingTilePuzzle": lambda: SlidingTilePuzzle(), "Sudoku": lambda: Sudoku(),
 "BinPack": lambda: BinPack(), "BinPackToy": lambda: BinPack(BPToy()), "FlatPack": lambda: FlatPack(), "FlatPackToy": lambda: FlatPack(ToyFlatPackGeneratorNoRotation()), "JobShop": lambda: JobShop(), "JobShopToy": lambda: JobShop(JSToy()), "Knapsack": lambda: Knapsack(),
 "Tetris": lambda: Tetris(), "Cleaner": lambda: Cleaner(), "Connector": lambda: Connector(), "CVRP": lambda: CVRP(),
 "LBF": lambda: LevelBasedForaging(), "Maze": lambda: Maze(), "MazeToy": lambda: Maze(MazeToy()), "MMST": lambda: MMST(), "MultiCVRP": lambda: MultiCVRP(),
 "PacMan": lambda: PacMan(), "RobotWarehouse": lambda: RobotWarehouse(), "Snake": lambda: Snake(), "Sokoban": lambda: Sokoban(generator=SokToy()),
 "TSP": lambda: TSP(),
}
def teq(a,b,strict=True):
    la,ta=jax.tree_util.tree_flatten(a); lb,tb=jax.tree_util.tree_flatten(b)
    if ta!=tb: return ["treedef differs"]
    out=[]
    for i,(x,y) in enumerate(zip(la,lb)):
        tx,ty=type(x).__name__,type(y).__name__
        x=np.asarray(jnp.asarray(x)); y=np.asarray(jnp.asarray(y))
        if x.shape!=y.shape: out.append(f"leaf{i} shape {x.shape}/{y.shape}"); continue
        if x.dtype!=y.dtype: out.append(f"leaf{i} dtype {x.dtype}/{y.dtype} ({tx}/{ty})")
        if x.dtype.kind=='f':
            if not np.array_equal(x,y,equal_nan=True): out.append(f"leaf{i} float maxdiff {np.nanmax(np.abs(x.astype(np.float64)-y)):.3g}")
        elif not (x==y).all(): out.append(f"leaf{i} differs")
    return out
def leafids(t): return [id(x) for x in jax.tree_util.tree_leaves(t)]
for name,mk in envs.items():
    try:
        env=mk(); key=jax.random.PRNGKey(0)
        t0=time.time(); se,tse=env.reset(key); sj,tsj=jax.jit(env.reset)(key)
        d=teq((se,tse),(sj,tsj)); msgs=[]
        if d: msgs.append("reset eager/jit: "+"; ".join(d[:3]))
        pyleaves=[type(x).__name__ for x in jax.tree_util.tree_leaves(se) if not isinstance(x,(jax.Array,np.ndarray))]
        a=env.action_spec.generate_value()
        m=getattr(tse.observation,"action_mask",None)
        s=se
        for t in range(2):
            ids=leafids(s); snap=jax.device_get(jax.tree_util.tree_map(jnp.asarray,s))
            e2,et2=env.step(s,a); j2,jt2=jax.jit(env.step)(s,a)
            d=teq((e2,et2),(j2,jt2))
            if d: msgs.append(f"step{t} eager/jit: "+"; ".join(d[:3]))
            if leafids(s)!=ids: msgs.append(f"step{t}: argument leaves replaced (mutation)")
            d=teq(snap,jax.device_get(jax.tree_util.tree_map(jnp.asarray,s)))
            if d: msgs.append(f"step{t}: argument values changed: "+"; ".join(d[:2]))
            s=e2
        print(f"{name:16s} {time.time()-t0:5.1f}s pyleaves={pyleaves} ", "OK" if not msgs else msgs, flush=True)
    except Exception as e:
        import traceback; print(name,"EXC",type(e).__name__,str(e)[:300].replace("\n"," "),flush=True)
