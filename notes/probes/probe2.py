import warnings; warnings.filterwarnings("ignore")
import jax, jax.numpy as jnp, numpy as np
from jumanji import specs
from jumanji.environments import *
from jumanji.environments.routing.sokoban.generator import ToyGenerator as SokToy
envs = {
 "Game2048": lambda: Game2048(), "GraphColoring": lambda: GraphColoring(), "Minesweeper": lambda: Minesweeper(),
 "RubiksCube": lambda: RubiksCube(), "SlidingTilePuzzle": lambda: SlidingTilePuzzle(), "Sudoku": lambda: Sudoku(),
 "BinPack": lambda: BinPack(), "FlatPack": lambda: FlatPack(), "JobShop": lambda: JobShop(), "Knapsack": lambda: Knapsack(),
 "Tetris": lambda: Tetris(), "Cleaner": lambda: Cleaner(), "Connector": lambda: Connector(), "CVRP": lambda: CVRP(),
 "LBF": lambda: LevelBasedForaging(), "LBFgrid": lambda: LevelBasedForaging(grid_observation=True), "Maze": lambda: Maze(), "MMST": lambda: MMST(), "MultiCVRP": lambda: MultiCVRP(),
 "PacMan": lambda: PacMan(), "RobotWarehouse": lambda: RobotWarehouse(), "Snake": lambda: Snake(), "Sokoban": lambda: Sokoban(generator=SokToy()),
 "TSP": lambda: TSP(),
}
def val(spec, v):
    try: spec.validate(v); return None
    except Exception as e: return str(e)[:160].replace("\n"," ")
for name, mk in list(envs.items())[18:]:
    env = mk()
    probs = []
    step = jax.jit(env.step)
    for k in range(3):
        s, ts = jax.jit(env.reset)(jax.random.PRNGKey(k))
        for what, sp, v in [("obs", env.observation_spec, ts.observation), ("rew", env.reward_spec, ts.reward), ("disc", env.discount_spec, ts.discount)]:
            e = val(sp, v)
            if e: probs.append(f"reset {what}: {e}")
        a = env.action_spec.generate_value()
        e = val(env.action_spec, a)
        if e: probs.append(f"generate_value: {e}")
        for t in range(30):
            # pick first masked-in action if mask exists else generate_value
            obs = ts.observation
            m = getattr(obs, "action_mask", None)
            act = a
            if m is not None:
                m = np.array(m)
                an = np.array(a)
                if m.ndim == an.ndim + 0 and an.ndim == 0:
                    idx = np.argwhere(m); act = jnp.array(idx[t % len(idx)][0], an.dtype) if len(idx) else a
                elif an.ndim == 1 and m.ndim == an.shape[0] and hasattr(env.action_spec,"num_values") and m.shape == tuple(np.array(env.action_spec.num_values)) :
                    idx = np.argwhere(m); act = jnp.array(idx[t % len(idx)], an.dtype) if len(idx) else a
                elif an.ndim == 1 and m.ndim == 2 and m.shape[0] == an.shape[0]:
                    act = jnp.array([ (np.argwhere(r)[(t) % max(1,r.sum())][0] if r.any() else 0) for r in m], an.dtype)
            s, ts = step(s, act)
            for what, sp, v in [("obs", env.observation_spec, ts.observation), ("rew", env.reward_spec, ts.reward), ("disc", env.discount_spec, ts.discount)]:
                e = val(sp, v)
                if e: probs.append(f"k{k} t{t+1} type{int(ts.step_type)} {what}: {e}")
            if int(ts.step_type) == 2: break
    print(name, "steps ok" if not probs else "", flush=True)
    for p in sorted(set(probs))[:6]: print("    ", p)
