import warnings; warnings.filterwarnings("ignore")
import numpy as np, jax, jax.numpy as jnp
from jumanji.environments import *
from jumanji.environments.logic.minesweeper.generator import UniformSamplingGenerator as MSG
from jumanji.environments.routing.robot_warehouse.generator import RandomGenerator as RWG
from jumanji.environments.routing.lbf.generator import RandomGenerator as LG
from jumanji.environments.routing.tsp.generator import UniformGenerator as TG
from jumanji.environments.routing.cvrp.generator import UniformGenerator as CVG
from jumanji.environments.packing.job_shop.generator import RandomGenerator as JG
from jumanji.environments.packing.flat_pack.generator import RandomFlatPackGenerator as FPG
from jumanji.environments.packing.knapsack.generator import RandomGenerator as KG
from jumanji.environments.routing.cleaner.generator import RandomGenerator as CLG
from jumanji.environments.routing.maze.generator import RandomGenerator as MZG
from jumanji.environments.routing.multi_cvrp.generator import UniformRandomGenerator as MCG
from jumanji.environments.logic.sliding_tile_puzzle.generator import RandomWalkGenerator as STG
from jumanji.environments.logic.rubiks_cube.generator import ScramblingGenerator as RCG
from jumanji.environments.routing.connector.generator import RandomWalkGenerator as CRW, UniformRandomGenerator as CUG
cfgs={
 "mines(3,3,0)": lambda: Minesweeper(MSG(3,3,0)), "mines(4,3,11)": lambda: Minesweeper(MSG(4,3,11)), "mines(2,5,1)": lambda: Minesweeper(MSG(2,5,1)),
 "rw tiny": lambda: RobotWarehouse(RWG(shelf_rows=1,shelf_columns=1,column_height=2,num_agents=2,sensor_range=1,request_queue_size=2),time_limit=3),
 "rw tiny sr2 3ag": lambda: RobotWarehouse(RWG(shelf_rows=1,shelf_columns=1,column_height=2,num_agents=3,sensor_range=2,request_queue_size=1),time_limit=3),
 "lbf5 fov1": lambda: LevelBasedForaging(LG(5,2,1,fov=1),time_limit=3), "lbf6 3a2f grid": lambda: LevelBasedForaging(LG(6,3,2,fov=2,force_coop=True),grid_observation=True,time_limit=3),
 "lbf nonorm pen": lambda: LevelBasedForaging(LG(5,2,1,fov=5),normalize_reward=False,penalty=1.0,time_limit=3),
 "tsp1": lambda: TSP(TG(1)), "tsp2": lambda: TSP(TG(2)),
 "cvrp cap==dem": lambda: CVRP(CVG(3,5,5)), "jobshop(1,1,3,2)": lambda: JobShop(JG(1,1,3,2)), "jobshop(2,3,1,1)": lambda: JobShop(JG(2,3,1,1)),
 "flatpack(1,3)": lambda: FlatPack(FPG(1,3)), "flatpack(3,2)": lambda: FlatPack(FPG(3,2)), "flatpack(1,1)": lambda: FlatPack(FPG(1,1)),
 "knap budget .1": lambda: Knapsack(KG(4,0.1)), "knap budget 6": lambda: Knapsack(KG(4,6.0)),
 "tetris(4,7)": lambda: Tetris(4,7,3), "tetris(8,4)": lambda: Tetris(8,4,3), "snake(2,5)": lambda: Snake(2,5,3), "snake(5,2)": lambda: Snake(5,2,3), "snake(1,1)": lambda: Snake(1,1,3),
 "cleaner(3,7,1)": lambda: Cleaner(CLG(3,7,1),time_limit=3), "cleaner(2,2,3)": lambda: Cleaner(CLG(2,2,3)), "cleaner(1,4,1)": lambda: Cleaner(CLG(1,4,1)),
 "maze(3,7)": lambda: Maze(MZG(3,7),time_limit=3), "maze(6,2)": lambda: Maze(MZG(6,2)), "maze(2,2)": lambda: Maze(MZG(2,2)), "maze(1,5)": lambda: Maze(MZG(1,5)),
 "mcvrp(6,3)": lambda: MultiCVRP(MCG(6,3)), "slide n=2 moves0": lambda: SlidingTilePuzzle(STG(2,0),time_limit=2), "rubik 2 scr0": lambda: RubiksCube(RCG(2,0),time_limit=2),
 "connector rw(3,2)": lambda: Connector(CRW(3,2),time_limit=3), "connector u(3,3)": lambda: Connector(CUG(3,3),time_limit=3), "game2048(1)": lambda: Game2048(1), "game2048(5)": lambda: Game2048(5),
 "2048(2)": lambda: Game2048(2),
}
for n,mk in cfgs.items():
    try:
        env=mk(); s,ts=jax.jit(env.reset)(jax.random.PRNGKey(0)); a=env.action_spec.generate_value(); s2,ts2=jax.jit(env.step)(s,a)
        env.observation_spec.validate(ts.observation); 
        print(f"{n:22s} ok  type after step {int(ts2.step_type)}")
    except Exception as e:
        print(f"{n:22s} EXC {type(e).__name__}: {str(e)[:140]}".replace("\n"," "))
