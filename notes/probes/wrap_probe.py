import warnings; warnings.filterwarnings("ignore")
import numpy as np, jax, jax.numpy as jnp, traceback
from jumanji.environments import *
from jumanji.wrappers import *
from jumanji.environments.routing.sokoban.generator import ToyGenerator as SokToy
envs = {
 "Game2048": lambda: Game2048(2), "GraphColoring": lambda: GraphColoring(), "Minesweeper": lambda: Minesweeper(),
 "RubiksCube": lambda: RubiksCube(time_limit=2), "SlidingTilePuzzle": lambda: SlidingTilePuzzle(time_limit=2), "Sudoku": lambda: Sudoku(),
 "BinPack": lambda: BinPack(), "FlatPack": lambda: FlatPack(), "JobShop": lambda: JobShop(), "Knapsack": lambda: Knapsack(),
 "Tetris": lambda: Tetris(time_limit=2), "Cleaner": lambda: Cleaner(time_limit=2), "Connector": lambda: Connector(time_limit=2), "CVRP": lambda: CVRP(),
 "LBF": lambda: LevelBasedForaging(time_limit=2), "Maze": lambda: Maze(time_limit=2), "MMST": lambda: MMST(time_limit=2), "MultiCVRP": lambda: MultiCVRP(),
 "PacMan": lambda: PacMan(), "RobotWarehouse": lambda: RobotWarehouse(time_limit=2), "Snake": lambda: Snake(time_limit=2), "Sokoban": lambda: Sokoban(generator=SokToy(),time_limit=2),
 "TSP": lambda: TSP(),
}
def teq(a,b):
    la,ta=jax.tree_util.tree_flatten(a); lb,tb=jax.tree_util.tree_flatten(b)
    if ta!=tb: return "treedef differs"
    for i,(x,y) in enumerate(zip(la,lb)):
        x=np.asarray(x); y=np.asarray(y)
        if x.shape!=y.shape: return f"leaf {i} shape {x.shape} vs {y.shape}"
        if x.dtype!=y.dtype: return f"leaf {i} dtype {x.dtype} vs {y.dtype}"
        if x.dtype.kind=='f':
            if not np.allclose(x,y,rtol=1e-5,atol=1e-6,equal_nan=True): return f"leaf {i} float differs"
        elif not (x==y).all(): return f"leaf {i} differs"
    return None
for name,mk in envs.items():
    try:
        env=mk(); msgs=[]
        for nobs in (False,True):
            W=AutoResetWrapper(env,next_obs_in_extras=nobs); ws=jax.jit(W.step); es=jax.jit(env.step); er=jax.jit(env.reset)
            s,ts=jax.jit(W.reset)(jax.random.PRNGKey(0)); a=env.action_spec.generate_value(); nlast=0
            for t in range(6):
                s2,ts2=ws(s,a); e2,et2=es(s,a)
                if int(et2.step_type)!=2:
                    exp_s,exp_obs=e2,et2.observation
                else:
                    nlast+=1; k=jax.random.split(e2.key)[0]; exp_s,rt=er(k); exp_obs=rt.observation
                d=teq(s2,exp_s) or teq(ts2.observation,exp_obs) or teq((ts2.step_type,ts2.reward,ts2.discount),(et2.step_type,et2.reward,et2.discount))
                if nobs and not d: d=teq(ts2.extras["next_obs"],et2.observation)
                if d: msgs.append(f"nobs={nobs} t={t}: {d}")
                s,ts=s2,ts2
            # VmapAutoReset vs Vmap(AutoReset)
            keys=jax.random.split(jax.random.PRNGKey(1),3)
            V1=VmapAutoResetWrapper(env,next_obs_in_extras=nobs); V2=VmapWrapper(AutoResetWrapper(env,next_obs_in_extras=nobs))
            s1,t1=jax.jit(V1.reset)(keys); s2_,t2=jax.jit(V2.reset)(keys)
            d=teq((s1,t1),(s2_,t2)); 
            if d: msgs.append(f"vmap reset nobs={nobs}: {d}")
            acts=jnp.broadcast_to(a,(3,)+a.shape)
            f1=jax.jit(V1.step); f2=jax.jit(V2.step)
            for t in range(4):
                s1,t1=f1(s1,acts); s2_,t2=f2(s2_,acts); d=teq((s1,t1),(s2_,t2))
                if d: msgs.append(f"vmap step nobs={nobs} t={t}: {d}")
        print(name,"lasts",nlast,"OK" if not msgs else msgs[:4],flush=True)
    except Exception as e:
        print(name,"EXC",type(e).__name__,str(e)[:300].replace("\n"," "),flush=True)
