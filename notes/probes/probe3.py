import warnings; warnings.filterwarnings("ignore")
import jax, jax.numpy as jnp, numpy as np, pickle
from jumanji import specs
import jumanji
from jumanji.environments import *
from jumanji.wrappers import *
print("registered:", len(jumanji.registered_environments()))
# PacMan position spec by injection
env=PacMan(); s,ts=env.reset(jax.random.PRNGKey(0)); g=np.array(s.grid); print("pacman grid", g.shape, "x_size", env.x_size, "y_size", env.y_size)
from jumanji.environments.routing.pac_man.types import Position
bad=0; cells=np.argwhere(g==1)
for r,c in cells:
    s2=s.replace(player_locations=Position(x=jnp.int32(r),y=jnp.int32(c)))
    obs=env._observation_from_state(s2)
    try: env.observation_spec.validate(obs)
    except Exception as e: bad+=1; last=(r,c,str(e)[:120])
print("pacman cells", len(cells), "violating obs spec:", bad, last if bad else "")
# MultiDiscrete eq
a=specs.MultiDiscreteArray(jnp.array([2,2])); b=specs.MultiDiscreteArray(jnp.array([2]))
try: print("MD [2,2]==[2]:", a==b)
except Exception as e: print("MD eq raises", type(e).__name__, str(e)[:80])
c=specs.MultiDiscreteArray(jnp.array([2,3,4]))
try: print("MD [2,2]==[2,3,4]:", a==c)
except Exception as e: print("MD eq raises", type(e).__name__, str(e)[:80])
# Array eq vs BoundedArray cross-kind
print("Array==Bounded same shape:", specs.Array((2,),jnp.float32)==specs.BoundedArray((2,),jnp.float32,0,1), " reversed:", specs.BoundedArray((2,),jnp.float32,0,1)==specs.Array((2,),jnp.float32))
print("Discrete(3)==Bounded((),int32,0,2):", specs.DiscreteArray(3)==specs.BoundedArray((),jnp.int32,0,2), specs.BoundedArray((),jnp.int32,0,2)==specs.DiscreteArray(3))
# pickle nested
sp=Maze().observation_spec
try:
    sp2=pickle.loads(pickle.dumps(sp)); print("pickle nested maze spec ok; eq:", sp2==sp)
except Exception as e: print("pickle nested fails", type(e).__name__, str(e)[:100])
sp=Game2048().observation_spec
try:
    sp2=pickle.loads(pickle.dumps(sp)); print("pickle nested 2048 spec ok; eq:", sp2==sp)
except Exception as e: print("pickle nested fails", type(e).__name__, str(e)[:100])
# replace() on nested
try: r=sp.replace(); print("nested replace() eq:", r==sp)
except Exception as e: print("nested replace fails", type(e).__name__, str(e)[:100])
# AutoReset key chain on Tetris with time_limit 1
env=AutoResetWrapper(Tetris(num_rows=6,num_cols=6,time_limit=1)); s,ts=env.reset(jax.random.PRNGKey(0)); keys=[tuple(np.array(s.key))]; tets=[int(s.tetromino_index)]
for i in range(6):
    m=np.array(ts.observation.action_mask); r,c=np.argwhere(m)[0]; s,ts=env.step(s,jnp.array([r,c])); keys.append(tuple(np.array(s.key))); tets.append(int(s.tetromino_index))
print("tetris autoreset keys distinct:", len(set(keys))==len(keys), "tetromino seq", tets)
# gym wrapper on a few envs
for mk in [lambda: Game2048(), lambda: Maze(), lambda: BinPack(), lambda: Snake(), lambda: MultiToSingleWrapper(Connector())]:
    e=mk(); g=JumanjiToGymWrapper(e)
    try:
        o,info=g.reset(seed=3); ok=g.observation_space.contains(o); a=g.action_space.sample(); o2,r,term,trunc,info=g.step(a); print(type(e).__name__, "gym obs in space:", ok, g.observation_space.contains(o2), "r", r, term, trunc)
    except Exception as ex: print(type(e).__name__, "gym fails:", type(ex).__name__, str(ex)[:150])
