import warnings; warnings.filterwarnings("ignore")
import time, itertools, sys
import jax, jax.numpy as jnp, numpy as np
from jumanji.environments import *
def all_actions(spec):
    from jumanji import specs
    if isinstance(spec, specs.DiscreteArray): return np.arange(spec.num_values, dtype=np.int32)
    if isinstance(spec, specs.MultiDiscreteArray):
        nv=np.array(spec.num_values); return np.array(list(itertools.product(*[range(int(n)) for n in nv.ravel()])), dtype=np.int32).reshape((-1,)+nv.shape)
    lo=np.broadcast_to(np.array(spec.minimum),spec.shape); hi=np.broadcast_to(np.array(spec.maximum),spec.shape)
    return np.array(list(itertools.product(*[range(int(l),int(h)+1) for l,h in zip(lo.ravel(),hi.ravel())])),dtype=np.array(spec.generate_value()).dtype).reshape((-1,)+spec.shape)
def bfs(env, keys, max_depth=50, max_states=400000, chunk=4096):
    A=all_actions(env.action_spec); nA=len(A)
    reset=jax.jit(jax.vmap(env.reset)); 
    stepf=jax.jit(jax.vmap(lambda s,a: jax.vmap(lambda aa: env.step(s,aa))(a), in_axes=(0,None)))
    st,ts=reset(jnp.stack([jax.random.PRNGKey(k) for k in keys]))
    leaves,treedef=jax.tree_util.tree_flatten(jax.device_get(st))
    leaves=[np.asarray(l) for l in leaves]
    def keyof(ls,i): return b"|".join(np.ascontiguousarray(l[i]).tobytes() for l in ls)
    seen={}
    frontier=[]
    for i in range(len(keys)):
        k=keyof(leaves,i)
        if k not in seen: seen[k]=len(seen); frontier.append(i)
    cur=[l[frontier] for l in leaves]
    ntrans=0; nterm=0; depth=0; t0=time.time()
    Aj=jnp.asarray(A)
    while len(cur[0]) and depth<max_depth and len(seen)<max_states:
        depth+=1
        nxt_leaves=[[] for _ in leaves]
        n=len(cur[0])
        for c0 in range(0,n,chunk):
            part=[l[c0:c0+chunk] for l in cur]
            m=len(part[0])
            pad=chunk-m if n>chunk else 0
            if pad: part=[np.concatenate([p,np.repeat(p[:1],pad,0)]) for p in part]
            s=jax.tree_util.tree_unflatten(treedef,[jnp.asarray(p) for p in part])
            s2,ts2=stepf(s,Aj)
            l2=[np.asarray(x) for x in jax.tree_util.tree_leaves(jax.device_get(s2))]
            stype=np.asarray(ts2.step_type)
            l2=[x[:m] for x in l2]; stype=stype[:m]
            flat=[x.reshape((m*nA,)+x.shape[2:]) for x in l2]; stf=stype.reshape(-1)
            ntrans+=m*nA
            # hash rows
            rows=np.concatenate([np.ascontiguousarray(x).reshape(m*nA,-1).view(np.uint8) for x in flat],axis=1)
            for i in range(m*nA):
                if stf[i]==2: nterm+=1; continue
                k=rows[i].tobytes()
                if k not in seen:
                    seen[k]=len(seen)
                    for j,x in enumerate(flat): nxt_leaves[j].append(x[i])
        cur=[np.stack(x) if len(x) else np.zeros((0,)+leaves[j].shape[1:],leaves[j].dtype) for j,x in enumerate(nxt_leaves)]
    return dict(states=len(seen),transitions=ntrans,terminal_edges=nterm,depth=depth,closed=len(cur[0])==0,secs=round(time.time()-t0,1),nA=nA)
from jumanji.environments.routing.maze.generator import RandomGenerator as MazeG
from jumanji.environments.logic.sliding_tile_puzzle.generator import RandomWalkGenerator as STG
from jumanji.environments.packing.knapsack.generator import RandomGenerator as KG
from jumanji.environments.routing.tsp.generator import UniformGenerator as TG
from jumanji.environments.routing.cvrp.generator import UniformGenerator as CVG
from jumanji.environments.packing.job_shop.generator import RandomGenerator as JG
from jumanji.environments.packing.bin_pack.generator import RandomGenerator as BG
from jumanji.environments.routing.connector.generator import UniformRandomGenerator as CUG
from jumanji.environments.routing.sokoban.generator import SimpleSolveGenerator
from jumanji.environments.logic.graph_coloring.generator import RandomGenerator as GCG
from jumanji.environments.logic.minesweeper.generator import UniformSamplingGenerator as MSG
from jumanji.environments.routing.cleaner.generator import RandomGenerator as CLG
from jumanji.environments.packing.flat_pack.generator import RandomFlatPackGenerator as FPG
from jumanji.environments.routing.lbf.generator import RandomGenerator as LG
cases={
 "maze5x5_T8": (lambda: Maze(MazeG(5,5),time_limit=8),[0,1,2],50),
 "slide2x2_T6": (lambda: SlidingTilePuzzle(STG(2,10),time_limit=6),[0,1],50),
 "slide3x3_T10": (lambda: SlidingTilePuzzle(STG(3,20),time_limit=10),[0],50),
 "knap6": (lambda: Knapsack(KG(6,1.5)),[0,1,2],50),
 "tsp5": (lambda: TSP(TG(5)),[0,1],50),
 "cvrp4": (lambda: CVRP(CVG(4,10,5)),[0,1],50),
 "jobshop_2j2m2o": (lambda: JobShop(JG(2,2,2,2)),[0,1,2],50),
 "jobshop_3j2m2o": (lambda: JobShop(JG(3,2,2,3)),[0,1],50),
 "binpack5": (lambda: BinPack(BG(5,10,split_num_same_items=2),obs_num_ems=6),[0,1],50),
 "2048_2x2_d8": (lambda: Game2048(2),[0,1],8),
 "2048_3x3_d7": (lambda: Game2048(3),[0],7),
 "snake3x3_T12": (lambda: Snake(3,3,12),[0,1],50),
 "snake4x4_T10": (lambda: Snake(4,4,10),[0],50),
 "connector4x4x2_T6": (lambda: Connector(CUG(4,2),time_limit=6),[0,1],50),
 "sokoban_T7": (lambda: Sokoban(SimpleSolveGenerator(),time_limit=7),[0],50),
 "graphcol5": (lambda: GraphColoring(GCG(5,0.6)),[0,1,2],50),
 "mines3x3_2": (lambda: Minesweeper(MSG(3,3,2)),[0,1],50),
 "cleaner3x4x2_T6": (lambda: Cleaner(CLG(3,4,2),time_limit=6),[0,1],50),
 "tetris4x4_T4": (lambda: Tetris(4,4,4),[0,1],50),
 "flatpack2x2": (lambda: FlatPack(FPG(2,2)),[0],50),
 "lbf5_2a1f_T4": (lambda: LevelBasedForaging(LG(5,2,1,5),time_limit=4),[0],50),
 "rubiks2_T3": (lambda: RubiksCube(time_limit=3, generator=__import__('jumanji.environments.logic.rubiks_cube.generator',fromlist=['x']).ScramblingGenerator(2,5)),[0],50),
}
sel=sys.argv[1:]
for name,(mk,keys,md) in cases.items():
    if sel and name not in sel: continue
    try:
        t=time.time(); env=mk(); r=bfs(env,keys,max_depth=md); print(f"{name:22s}", r, "total", round(time.time()-t,1), flush=True)
    except Exception as e:
        import traceback; print(name,"ERR",type(e).__name__,str(e)[:300]); 
