import warnings; warnings.filterwarnings("ignore")
import numpy as np, jax, jax.numpy as jnp
from jumanji.environments import BinPack
from jumanji.environments.packing.bin_pack.generator import RandomGenerator, ToyGenerator
def check(s):
    it=s.items; loc=s.items_location; placed=np.array(s.items_placed)
    x1=np.array(loc.x); y1=np.array(loc.y); z1=np.array(loc.z)
    x2=x1+np.array(it.x_len); y2=y1+np.array(it.y_len); z2=z1+np.array(it.z_len)
    c=s.container; cx,cy,cz=int(c.x2),int(c.y2),int(c.z2)
    idx=np.nonzero(placed)[0]; errs=[]
    for i in idx:
        if x1[i]<0 or y1[i]<0 or z1[i]<0 or x2[i]>cx or y2[i]>cy or z2[i]>cz: errs.append(("outside",i))
        for j in idx:
            if j<=i: continue
            if min(x2[i],x2[j])>max(x1[i],x1[j]) and min(y2[i],y2[j])>max(y1[i],y1[j]) and min(z2[i],z2[j])>max(z1[i],z1[j]): errs.append(("overlap",i,j))
    return errs
tot=0; bad=0; full=0
for name,env in [("default",BinPack()),("toy",BinPack(ToyGenerator(),obs_num_ems=40)),("small",BinPack(RandomGenerator(6,12,split_num_same_items=2),obs_num_ems=5)),("nonorm",BinPack(RandomGenerator(8,20,split_num_same_items=3),obs_num_ems=20,normalize_dimensions=False))]:
    step=jax.jit(env.step); reset=jax.jit(env.reset)
    for k in range(6):
        s,ts=reset(jax.random.PRNGKey(k)); rng=np.random.RandomState(k)
        while True:
            m=np.array(ts.observation.action_mask); idx=np.argwhere(m)
            if len(idx)==0: break
            a=idx[rng.randint(len(idx))] if k%2 else idx[0]
            s,ts=step(s,jnp.array(a,jnp.int32)); tot+=1
            e=check(s)
            if e: bad+=1; print(name,k,e[:3])
            if bool(ts.extras["invalid_action"]): print("masked-in action flagged invalid!",name,k)
            if int(ts.step_type)==2: break
        util=float(ts.extras["volume_utilization"]); full+= (np.array(s.items_placed).sum()==np.array(s.items_mask).sum())
        print(name,"key",k,"placed",int(np.array(s.items_placed).sum()),"/",int(np.array(s.items_mask).sum()),"util %.3f"%util, "active ems", int(ts.extras["active_ems"]))
print("steps",tot,"bad",bad,"complete episodes",full)
