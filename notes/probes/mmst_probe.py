import warnings; warnings.filterwarnings("ignore")
import numpy as np, jax, jax.numpy as jnp
from jumanji.environments import MMST
from jumanji.environments.routing.mmst.generator import SplitRandomGenerator
def ref_mask(s):
    adj=np.array(s.adj_matrix); types=np.array(s.node_types); pos=np.array(s.positions)
    conn=np.array(s.connected_nodes); fin=np.array(s.finished_agents)
    A,N=len(pos),len(types)
    m=np.zeros((A,N),bool)
    for a in range(A):
        claimed=set()
        for b in range(A):
            if b==a: continue
            for n in conn[b]:
                if n>=0 and types[n]==-1: claimed.add(int(n))
        for n in range(N):
            m[a,n]= adj[pos[a],n]==1 and n not in claimed and not fin[a]
    return m
tot=0; bad=0
for cfg in [dict(num_nodes=12,num_edges=18,max_degree=4,num_agents=2,num_nodes_per_agent=3,max_step=12), dict(num_nodes=36,num_edges=72,max_degree=5,num_agents=3,num_nodes_per_agent=4,max_step=70)]:
    env=MMST(generator=SplitRandomGenerator(**cfg), time_limit=cfg['max_step'])
    step=jax.jit(env.step); reset=jax.jit(env.reset)
    for k in range(5):
        s,ts=reset(jax.random.PRNGKey(k))
        rng=np.random.RandomState(k)
        for t in range(cfg['max_step']):
            m=np.array(ts.observation.action_mask); r=ref_mask(s); tot+=1
            if not (m==r).all():
                bad+=1
                if bad<4:
                    d=np.argwhere(m!=r); print("MISMATCH cfg",cfg['num_nodes'],"key",k,"t",t,d[:5], "impl",m[tuple(d[0])],"pos",np.array(s.positions),"types@",np.array(s.node_types)[d[0][1]], "fin", np.array(s.finished_agents))
            act=[]
            for a in range(m.shape[0]):
                idx=np.argwhere(m[a]).ravel()
                act.append(int(rng.choice(idx)) if len(idx) and rng.rand()<0.9 else int(rng.randint(m.shape[1])))
            s,ts=step(s,jnp.array(act,jnp.int32))
            if int(ts.step_type)==2: break
print("states",tot,"mask mismatches",bad)
