import time, sys, warnings
warnings.filterwarnings("ignore")
import jax, jax.numpy as jnp, numpy as np
import jumanji
from jumanji.environments import *
from jumanji.environments.routing.sokoban.generator import ToyGenerator as SokToy
envs = {
 "Game2048": lambda: Game2048(), "GraphColoring": lambda: GraphColoring(), "Minesweeper": lambda: Minesweeper(),
 "RubiksCube": lambda: RubiksCube(), "SlidingTilePuzzle": lambda: SlidingTilePuzzle(), "Sudoku": lambda: Sudoku(),
 "BinPack": lambda: BinPack(), "FlatPack": lambda: FlatPack(), "JobShop": lambda: JobShop(), "Knapsack": lambda: Knapsack(),
 "Tetris": lambda: Tetris(), "Cleaner": lambda: Cleaner(), "Connector": lambda: Connector(), "CVRP": lambda: CVRP(),
 "LBF": lambda: LevelBasedForaging(), "Maze": lambda: Maze(), "MMST": lambda: MMST(), "MultiCVRP": lambda: MultiCVRP(),
 "PacMan": lambda: PacMan(), "RobotWarehouse": lambda: RobotWarehouse(), "Snake": lambda: Snake(), "Sokoban": lambda: Sokoban(generator=SokToy()),
 "TSP": lambda: TSP(),
}
only = sys.argv[1:] 
B=256
for name, mk in envs.items():
    if only and name not in only: continue
    t0=time.time(); env=mk(); t1=time.time()
    keys=jax.random.split(jax.random.PRNGKey(0), B)
    rs=jax.jit(jax.vmap(env.reset)); st,ts=rs(keys); jax.block_until_ready(st); t2=time.time()
    a=env.action_spec.generate_value(); acts=jnp.broadcast_to(a,(B,)+a.shape)
    sp=jax.jit(jax.vmap(env.step)); s2,ts2=sp(st,acts); jax.block_until_ready(s2); t3=time.time()
    for _ in range(5): s2,ts2=sp(st,acts)
    jax.block_until_ready(s2); t4=time.time()
    h=jax.device_get(s2); t5=time.time()
    # eager single step
    s0=jax.tree_util.tree_map(lambda x:x[0], st)
    te=time.time(); e1=env.step(s0,a); jax.block_until_ready(e1[0]); te1=time.time(); e1=env.step(s0,a); jax.block_until_ready(e1[0]); te2=time.time()
    nleaves=len(jax.tree_util.tree_leaves(st)); nbytes=sum(np.asarray(x).nbytes for x in jax.tree_util.tree_leaves(h))//B
    print(f"{name:16s} ctor {t1-t0:5.1f}s reset-compile {t2-t1:5.1f}s step-compile {t3-t2:5.1f}s step/batch{B} {(t4-t3)/5*1000:7.1f}ms get {1000*(t5-t4):5.1f}ms eager1st {te1-te:5.2f}s eager2nd {te2-te1:5.2f}s leaves {nleaves} bytes/state {nbytes}", flush=True)
