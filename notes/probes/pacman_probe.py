import warnings; warnings.filterwarnings("ignore")
import numpy as np, jax, jax.numpy as jnp
from jumanji.environments import PacMan
env=PacMan(); step=jax.jit(env.step); reset=jax.jit(env.reset)
bad=0; tot=0; same=0; scared_steps=0
for k in range(8):
    s,ts=reset(jax.random.PRNGKey(k)); g=np.array(s.grid); rng=np.random.RandomState(k)
    for t in range(400):
        m=np.array(ts.observation.action_mask); idx=np.argwhere(m).ravel()
        a=int(rng.choice(idx)) if rng.rand()<0.9 else int(rng.randint(5))
        s,ts=step(s,jnp.array(a)); tot+=1
        if int(ts.step_type)==2: break
        gl=np.array(s.ghost_locations); p=(int(s.player_locations.x),int(s.player_locations.y))
        # ghost_locations are (col,row)? generator: ghost_spawns.append((y,x)) with y=col index,x=row
        for gi,(c,r) in enumerate(gl):
            if not (0<=r<g.shape[0] and 0<=c<g.shape[1]) or g[r,c]!=1:
                bad+=1
                if bad<6: print("ghost in wall/out: key",k,"t",t,"ghost",gi,(c,r),"ghost_starts",np.array(s.ghost_starts))
            if (r,c)==p: same+=1
        if g[p[0],p[1]]!=1: print("player in wall",p)
        npel=int(s.pellets); nz=int((np.array(s.pellet_locations)!=0).any(axis=1).sum())
        if npel!=nz: print("pellet count mismatch",npel,nz); break
        scared_steps+= int(s.frightened_state_time)>0
    print("key",k,"steps",t+1,"score",int(s.score),"dead",bool(s.dead))
print("total",tot,"ghost-in-wall",bad,"player==ghost nonterminal",same,"scared steps",scared_steps)
