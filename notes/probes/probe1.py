import warnings; warnings.filterwarnings("ignore")
import jax, jax.numpy as jnp, numpy as np
from jumanji import specs
from jumanji.environments import *
def val(spec, v, what):
    try: spec.validate(v); print("  ok  ", what)
    except Exception as e: print("  FAIL", what, "->", str(e)[:150].replace("\n"," "))
print("TSP reset obs"); env=TSP(); s,ts=env.reset(jax.random.PRNGKey(0)); val(env.observation_spec, ts.observation, "tsp reset")
print("Snake time limit"); env=Snake(num_rows=4,num_cols=4,time_limit=2); s,ts=env.reset(jax.random.PRNGKey(0))
for t in range(2):
    a=int(np.argmax(np.array(ts.observation.action_mask))); s,ts=env.step(s,jnp.array(a)); print("  step",t+1,"type",int(ts.step_type),"obs.step_count",int(ts.observation.step_count)); val(env.observation_spec, ts.observation, "snake step")
print("Tetris obs.step_count"); env=Tetris(num_rows=6,num_cols=6,time_limit=3); s,ts=env.reset(jax.random.PRNGKey(1))
for t in range(3):
    m=np.array(ts.observation.action_mask); r,c=np.argwhere(m)[0]; s,ts=env.step(s,jnp.array([r,c])); print("  step",t+1,"type",int(ts.step_type),"obs.step_count",int(ts.observation.step_count),"state.step_count",int(s.step_count))
print("PacMan time limit"); env=PacMan(time_limit=5); print("  env.time_limit =", env.time_limit)
print("GraphColoring stale mask")
from jumanji.environments.logic.graph_coloring.generator import RandomGenerator as GCG
env=GraphColoring(generator=GCG(num_nodes=4, edge_probability=0.8))
for k in range(10):
    s,ts=env.reset(jax.random.PRNGKey(k)); adj=np.array(s.adj_matrix)
    if adj[0,1]:
        s1,ts1=env.step(s,jnp.array(2)); print("  key",k,"adj01",adj[0,1],"colors",np.array(s1.colors),"mask for node1",np.array(ts1.observation.action_mask)); 
        s2,ts2=env.step(s1,jnp.array(2)); print("  after coloring node1 with 2: step_type",int(ts2.step_type),"reward",float(ts2.reward),"colors",np.array(s2.colors)); break
print("Cleaner non-square")
from jumanji.environments.routing.cleaner.generator import RandomGenerator as CG
env=Cleaner(generator=CG(num_rows=3,num_cols=7,num_agents=1))
s,ts=env.reset(jax.random.PRNGKey(0)); print(np.array(s.grid)); print("  mask",np.array(ts.observation.action_mask))
for t in range(6):
    s,ts=env.step(s,jnp.array([1])); print("  right ->",np.array(s.agents_locations),"type",int(ts.step_type),"mask",np.array(ts.observation.action_mask).astype(int))
    if int(ts.step_type)==2: break
print("BoundedArray eq with array bounds")
a=specs.BoundedArray((2,),jnp.float32,[0.,0.],[1.,2.]); b=specs.BoundedArray((2,),jnp.float32,[0.,0.],[1.,2.])
try: print("  a==b:", a==b)
except Exception as e: print("  a==b raises", type(e).__name__, str(e)[:100])
c=specs.BoundedArray((2,),jnp.float32,[0.,0.],[1.,3.])
try: print("  a==c:", a==c)
except Exception as e: print("  a==c raises", type(e).__name__, str(e)[:100])
env=Cleaner(); 
try: print("  Cleaner obs spec == itself:", env.observation_spec==env.observation_spec, " replace()==", env.observation_spec.replace()==env.observation_spec)
except Exception as e: print("  raises", type(e).__name__, str(e)[:100])
