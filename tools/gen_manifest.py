#!/venv/bin/python
"""Regenerates /verif/MANIFEST.json from the table below (and validates it against the schema)."""
import json, os, sys
HERE = os.path.dirname(os.path.dirname(os.path.abspath(__file__)))
sys.path.insert(0, HERE)
from tools.manifest_table import CHECKS, NOT_APPLICABLE  # noqa: E402

props = [json.loads(l) for l in open(os.path.join(HERE, "properties.jsonl"))]
ids = [p["id"] for p in props]
checks = []
for pid in ids:
    if pid not in CHECKS:
        continue
    c = CHECKS[pid]
    checks.append({
        "property_id": pid,
        "quick_cmd": f"./check {pid} --tier quick",
        "thorough_cmd": f"./check {pid} --tier thorough",
        "evidence_file": f"/verif/evidence/{pid}.json",
        "replay_cmd_template": f"./check {pid} --replay {{path}}",
        "engine": c.get("engine", "explorer"),
        "level_claimed": {"category": "model_checking", "text": c["text"], "design_ref": c["design_ref"]},
        "level_note": c["note"],
        "technique": c["technique"],
    })
na = [{"property_id": pid, "reason": NOT_APPLICABLE.get(pid, "check not built yet in this round; no claim is made")}
      for pid in ids if pid not in CHECKS]
doc = {
    "version": 1,
    "setup_cmd": "/venv/bin/python -c \"import sys; sys.path[:0]=['/repo','/verif']; import mc.boot as b; b.assert_repo(); import jax, jumanji; print('ok', jax.__version__)\"",
    "hooks": {
        "guard": "JUMANJI_VERIF",
        "enable": "no source hooks: checks import jumanji from /repo's working tree (PYTHONPATH=/repo) and drive the public reset/step API; JUMANJI_VERIF=1 is exported but nothing in /repo reads it",
        "baseline_off_cmd": "cd /repo && /venv/bin/python -m pytest -ra -q -p no:cacheprovider --timeout=900 --continue-on-collection-errors",
        "source_commits": [],
        "add_only": True,
    },
    "engines": [
        {"name": "explorer", "path": "/verif/mc/engine.py", "serves_properties": [p for p in ids if p in CHECKS and CHECKS[p].get("engine", "explorer") == "explorer"],
         "kind_free_text": "explicit-state breadth-first exploration of the real env.reset/env.step (jit∘vmap over states × the complete action alphabet), full-state hashing, monitors on every node and edge, eager per-call re-validation of explored paths"},
        {"name": "enumerator", "path": "/verif/mc/checks", "serves_properties": [p for p in ids if p in CHECKS and CHECKS[p].get("engine") == "enumerator"],
         "kind_free_text": "bounded-exhaustive enumeration of inputs / call histories over small alphabets against NumPy reference models (no separate engine file: mc/checks/c10.py, c15.py-c19.py with mc/c10_core.py, c10_val_*.py, c15_adapters.py, c15_mts.py, c16_universe.py, c16_ref.py, c17_cube.py, c17_cuberef.py, c17_slide.py; tasks are spread over processes by mc/runner.py)"},
    ],
    "checks": checks,
    "not_applicable": na,
    "notes": "All checks: cwd=/verif, honour VERIF_SEED/VERIF_TIER, rewrite their evidence file, import jumanji from /repo's working tree. Known findings: /verif/known_findings.txt. Design: /verif/DESIGN.md.",
}
json.dump(doc, open(os.path.join(HERE, "MANIFEST.json"), "w"), indent=1)
import jsonschema
jsonschema.validate(doc, json.load(open("/root/.vp/MANIFEST.schema.json")))
print("MANIFEST.json written:", len(checks), "checks,", len(na), "not_applicable")
