#!/venv/bin/python
"""tools/mk_mutant_task.py <name> <PID> [focus...] : scratch worktree of /repo + _TASK.md for an independent
sub-agent that is asked for property-breaking changes (it sees the property text only, nothing from /verif)."""
import json, os, subprocess, sys
name, pid = sys.argv[1], sys.argv[2]
focus = " ".join(sys.argv[3:])
wt = f"/tmp/mut/{name}"
os.makedirs("/tmp/mut", exist_ok=True)
if not os.path.exists(wt):
    subprocess.run(["git", "-C", "/repo", "worktree", "add", "--detach", wt, "HEAD"], check=True, capture_output=True)
prop = next(json.loads(l) for l in open("/verif/properties.jsonl") if json.loads(l)["id"] == pid)
tmpl = open(os.path.join(os.path.dirname(os.path.abspath(__file__)), "agent_mutant.txt")).read()
txt = tmpl + f"""
YOUR WORKTREE: {wt}

PROPERTY ({prop['title']}):
{prop['statement']}
Scope of the quantification: {prop['quantifier']['text']}
Code the property is anchored in: {', '.join(prop['anchors']['files'][:30])}
Mechanisms involved: {'; '.join(m['name'] + ' (' + m['where'] + ')' for m in prop['anchors']['mechanism'])}
"""
if focus:
    txt += f"\nTo diversify across engineers, concentrate on: {focus}\n"
os.makedirs(wt + "/_out/1", exist_ok=True); os.makedirs(wt + "/_out/2", exist_ok=True)
open(wt + "/_TASK.md", "w").write(txt)
print(wt)
