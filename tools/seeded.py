#!/venv/bin/python
"""Run checks against the seeded property-breaking changes kept under /verif/seeded/<id>/.

  tools/seeded.py run <id> [--checks C04,C09] [--tier quick]   one seeded change, scratch copy of /repo
  tools/seeded.py run-all [--tier quick] [--jobs 2]              every seeded change, its meta.json checks
  tools/seeded.py table                                          markdown table from the recorded results

Each run copies /repo's jumanji package to a scratch directory outside /repo and /verif, applies
patch.diff there, runs the checks with VERIF_REPO pointing at the copy (evidence and replays are
redirected to the scratch directory so /verif/evidence is not touched), records exit codes and
VIOLATION lines in seeded/<id>/result.json and removes the scratch directory.
"""
import argparse
import concurrent.futures as cf
import json
import os
import shutil
import subprocess
import sys
import tempfile
import time

HERE = os.path.dirname(os.path.dirname(os.path.abspath(__file__)))
SEEDED = os.path.join(HERE, "seeded")


def run_one(sid: str, checks=None, tier="quick", procs=None, fast=False, record=True) -> dict:
    import re

    d = os.path.join(SEEDED, sid)
    meta = json.load(open(os.path.join(d, "meta.json")))
    fams = sorted(set(re.findall(r"jumanji/environments/\w+/(\w+)/", " ".join(meta.get("files", [])))))
    checks = checks or meta.get("checks") or [meta["property"]]
    scratch = tempfile.mkdtemp(prefix=f"vt-seed-{sid}-", dir="/tmp")
    try:
        shutil.copytree("/repo/jumanji", os.path.join(scratch, "jumanji"), ignore=shutil.ignore_patterns("__pycache__"))
        r = subprocess.run(["patch", "-p1", "--no-backup-if-mismatch", "-i", os.path.join(d, "patch.diff")], cwd=scratch,
                           capture_output=True, text=True)
        if r.returncode != 0:
            return {"id": sid, "error": "patch does not apply: " + (r.stdout + r.stderr)[-400:]}
        out = {"id": sid, "property": meta["property"], "tier": tier, "checks": {}}
        for c in checks:
            env = dict(os.environ, VERIF_REPO=scratch, PYTHONPATH=f"{scratch}:{HERE}", VERIF_TIER=tier,
                       VERIF_EVIDENCE_DIR=os.path.join(scratch, "evidence"), VERIF_REPLAY_DIR=os.path.join(scratch, "replays"),
                       JAX_PLATFORMS="cpu", PYTHONHASHSEED="0")
            if procs:
                env["VERIF_PROCS"] = str(procs)
            if fast and fams:
                env["VERIF_FAMILIES"] = ",".join(fams)  # subset of the quick run: a violation there is one in the full run
            t0 = time.time()
            p = subprocess.run(["/venv/bin/python", "-m", "mc.cli", c, "--tier", tier], cwd=HERE, env=env,
                               capture_output=True, text=True)
            lines = [l for l in p.stdout.splitlines() if l.startswith("VIOLATION") or l.startswith("  model=")
                     or l.startswith("ERROR")]
            out["checks"][c] = {"exit": p.returncode, "wall_s": round(time.time() - t0, 1),
                                "lines": lines[:12], "stderr_tail": p.stderr[-300:] if p.returncode not in (0, 1) else ""}
        out["detected_by"] = [c for c, v in out["checks"].items() if v["exit"] == 1]
        out["restricted_to_families"] = fams if fast else None
        if record and not (os.environ.get("VERIF_MODELS") or os.environ.get("VERIF_FAMILIES")
                           or os.environ.get("VERIF_C02_FAMILIES")):  # restricted ad-hoc runs are not recorded
            json.dump(out, open(os.path.join(d, f"result-{tier}.json"), "w"), indent=1)
        return out
    finally:
        shutil.rmtree(scratch, ignore_errors=True)


def main() -> int:
    ap = argparse.ArgumentParser()
    ap.add_argument("cmd", choices=["run", "run-all", "table", "design"])
    ap.add_argument("id", nargs="?")
    ap.add_argument("--checks", default=None)
    ap.add_argument("--tier", default="quick")
    ap.add_argument("--jobs", type=int, default=2)
    ap.add_argument("--procs", type=int, default=None)
    ap.add_argument("--fast", action="store_true", help="restrict graph checks to the families the patch touches")
    ap.add_argument("--only-missing", action="store_true")
    a = ap.parse_args()
    ids = sorted(x for x in os.listdir(SEEDED) if os.path.exists(os.path.join(SEEDED, x, "meta.json")))
    if a.cmd == "run":
        r = run_one(a.id, a.checks.split(",") if a.checks else None, a.tier, a.procs, a.fast)
        print(json.dumps(r, indent=1))
        return 0
    if a.cmd == "run-all":
        if a.only_missing:
            ids = [s for s in ids if not os.path.exists(os.path.join(SEEDED, s, f"result-{a.tier}.json"))]
        with cf.ThreadPoolExecutor(a.jobs) as ex:
            for r in ex.map(lambda s: run_one(s, None, a.tier, a.procs or max(2, 14 // a.jobs), a.fast), ids):
                print(r.get("id"), "detected_by=", r.get("detected_by"), r.get("error", ""), flush=True)
        return 0
    rows = []
    for s in ids:
        meta = json.load(open(os.path.join(SEEDED, s, "meta.json")))
        res = {}
        for tier in ("quick", "thorough"):
            f = os.path.join(SEEDED, s, f"result-{tier}.json")
            if os.path.exists(f):
                res[tier] = json.load(open(f)).get("detected_by", [])
        rows.append(f"| {s} | {meta['property']} | {meta.get('summary', '')[:90]} | {', '.join(res.get('quick', [])) or '—'} | "
                    f"{', '.join(res.get('thorough', [])) or '—'} |")
    table = ("| seeded change | breaks | what it does | caught by (quick) | caught by (thorough) |\n|---|---|---|---|---|\n"
             + "\n".join(rows))
    if a.cmd == "design":  # rewrite the table between the markers of DESIGN.md
        path = os.path.join(HERE, "DESIGN.md")
        txt = open(path).read()
        b, e = "<!-- SEEDED-TABLE-BEGIN -->", "<!-- SEEDED-TABLE-END -->"
        i, j = txt.index(b) + len(b), txt.index(e)
        open(path, "w").write(txt[:i] + "\n" + table + "\n" + txt[j:])
        print(f"DESIGN.md table rewritten: {len(rows)} rows")
        return 0
    print(table)
    return 0


if __name__ == "__main__":
    sys.exit(main())
