#!/venv/bin/python
"""tools/confirm_seeded.py <out_dir> <seed_id> <PID> [--checks C01,C04] : independently confirm a
property-breaking change delivered by a sub-agent and, if it holds up, keep it as seeded/<seed_id>/.

Confirmation (in a scratch git worktree of /repo's HEAD outside /repo and /verif, removed afterwards):
  1. demo.py exits 0 on the unchanged tree;
  2. patch.diff applies; demo.py exits non-zero with it;
  3. the existing tests of every package the patch touches (plus jumanji/*_test.py for top-level
     modules) give the same set of failures with and without the patch (network-only failures are the same).
"""
import argparse
import json
import os
import re
import shutil
import subprocess
import sys
import tempfile

HERE = os.path.dirname(os.path.dirname(os.path.abspath(__file__)))


def sh(cmd, cwd, timeout=3600):
    env = dict(os.environ, JAX_PLATFORMS="cpu", PYTHONPATH=cwd)
    p = subprocess.run(cmd, cwd=cwd, shell=isinstance(cmd, str), capture_output=True, text=True, env=env, timeout=timeout)
    return p.returncode, p.stdout + p.stderr


def failures(out: str):
    return sorted(set(re.findall(r"^(?:FAILED|ERROR) (\S+)", out, re.M)))


def main() -> int:
    ap = argparse.ArgumentParser()
    ap.add_argument("out_dir")
    ap.add_argument("seed_id")
    ap.add_argument("pid")
    ap.add_argument("--checks", default=None)
    ap.add_argument("--summary", default="")
    a = ap.parse_args()
    patch = os.path.join(a.out_dir, "patch.diff")
    demo = os.path.join(a.out_dir, "demo.py")
    wt = tempfile.mkdtemp(prefix="vt-confirm-", dir="/tmp")
    os.rmdir(wt)
    subprocess.run(["git", "-C", "/repo", "worktree", "add", "--detach", wt, "HEAD"], check=True, capture_output=True)
    rec = {"property": a.pid, "seed_id": a.seed_id}
    try:
        os.makedirs(os.path.join(wt, "_out", "1"), exist_ok=True)  # the layout the demonstration was written for
        shutil.copy(demo, os.path.join(wt, "_out", "1", "demo.py"))
        rc0, out0 = sh(["/venv/bin/python", "_out/1/demo.py"], wt)
        rec["demo_unchanged_exit"] = rc0
        files = re.findall(r"^\+\+\+ b/(\S+)", open(patch).read(), re.M)
        rec["files"] = files
        tests = set()
        for f in files:
            d = os.path.dirname(f)
            if d == "jumanji" or d == "jumanji/testing":
                tests.update(["jumanji/specs_test.py", "jumanji/wrappers_test.py", "jumanji/types_test.py",
                              "jumanji/tree_utils_test.py", "jumanji/registration_test.py", "jumanji/testing"])
            else:
                tests.add(d)
        tests = sorted(tests)
        rec["tests"] = tests
        cmd = ["/venv/bin/python", "-m", "pytest", "-q", "-p", "no:cacheprovider", "-x", "--timeout=900", "-rfE"] + tests
        cmd.remove("-x")
        rcb, outb = sh(cmd, wt)
        base_fail = failures(outb)
        rca, outa = sh(["patch", "-p1", "--no-backup-if-mismatch", "-i", patch], wt)
        rec["patch_applies"] = rca == 0
        if rca != 0:
            rec["error"] = outa[-300:]
        else:
            rc1, out1 = sh(["/venv/bin/python", "_out/1/demo.py"], wt)
            rec["demo_changed_exit"] = rc1
            rec["demo_changed_tail"] = out1.strip().splitlines()[-3:]
            rct, outt = sh(cmd, wt)
            mut_fail = failures(outt)
            rec["tests_summary_unchanged"] = outb.strip().splitlines()[-1:]
            rec["tests_summary_changed"] = outt.strip().splitlines()[-1:]
            rec["new_test_failures"] = [f for f in mut_fail if f not in base_fail]
        ok = (rec.get("demo_unchanged_exit") == 0 and rec.get("patch_applies") and rec.get("demo_changed_exit", 0) != 0
              and not rec.get("new_test_failures"))
        rec["confirmed"] = bool(ok)
        print(json.dumps(rec, indent=1))
        if ok:
            dst = os.path.join(HERE, "seeded", a.seed_id)
            os.makedirs(dst, exist_ok=True)
            shutil.copy(patch, os.path.join(dst, "patch.diff"))
            shutil.copy(demo, os.path.join(dst, "demo.py"))
            notes = os.path.join(a.out_dir, "notes.md")
            if os.path.exists(notes):
                shutil.copy(notes, os.path.join(dst, "notes.md"))
            meta = {
                "property": a.pid,
                "checks": (a.checks.split(",") if a.checks else [a.pid]),
                "summary": a.summary,
                "files": files,
                "origin": "independent sub-agent given only the property text and a scratch worktree",
                "confirmed": {k: rec[k] for k in ("demo_unchanged_exit", "demo_changed_exit", "tests", "tests_summary_unchanged",
                                                  "tests_summary_changed", "new_test_failures")},
                "what_was_run": "demo.py on unchanged and patched scratch worktree of /repo HEAD; pytest of the touched packages "
                                "with and without the patch (same failures: network-only tests)",
            }
            n = os.path.join(a.out_dir, "notes.md")
            if os.path.exists(n):
                txt = open(n).read()
                meta["needs_to_manifest"] = txt[:1500]
            json.dump(meta, open(os.path.join(dst, "meta.json"), "w"), indent=1)
        return 0 if ok else 1
    finally:
        subprocess.run(["git", "-C", "/repo", "worktree", "remove", "--force", wt], capture_output=True)
        shutil.rmtree(wt, ignore_errors=True)


if __name__ == "__main__":
    sys.exit(main())
