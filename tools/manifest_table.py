"""Per-property manifest entries. Only properties listed in READY are claimed."""
NOTE_COMMON = ("Trusted base: JAX/XLA CPU semantics, NumPy, the explorer (mc/engine.py) and the monitor code. "
               "Bounds: per-configuration reset-key window PRNGKey(0..K-1); tiny configurations are explored to closure, "
               "default-size ones to the depth / deviation bound listed in the evidence (closed=false). ")
NOTE_REF = (NOTE_COMMON + "The oracle is an independent NumPy statement of the documented rules (mc/ref/<family>.py); "
            "random in-step outcomes are taken from the implementation and checked for admissibility. ")
NOTE_ENUM = ("Trusted base: NumPy reference models in the check module, Python itself. Bounds: the finite alphabets and "
             "size/depth limits listed in the evidence; every member of the bounded space is enumerated. ")
ALL = dict(
    C01=dict(
        text="Every reset and every edge (all in-spec actions, legal or not, terminal steps included) of the explored transition graphs of all 23 environments is checked against the declared observation/reward/discount specs by an independent NumPy membership test; generate_value() is a member and is stepped. Exhaustive within the stated bounds, which is what a per-input property over all action sequences needs and a sampled rollout cannot give.",
        design_ref="§4 C01", technique="explicit-state BFS over the real env.step with the full action alphabet + spec-membership monitor; step-counter and player-position injection for boundary states",
        note=NOTE_COMMON + "Long time limits are reached by injecting the step counter (models *@horizon)."),
    C02=dict(
        text="For every environment an explored transition set is re-executed under jit, vmap (batch 1,2,7), lax.scan (prefix lengths 1,2,5,full) and plain eager calls and must agree leaf by leaf; all call histories up to length 2-3 over {reset(k0),reset(k1),step(s0,a0),step(s0,a1),step(s1,a0)} on one object must equal the same calls on a fresh object; arguments are checked for identity and value after every eager call; jaxpr effects must be empty. Native eager episodes hand the objects returned by un-jitted reset/step on untouched; all call histories of length 2-3 on two environments sharing one generator / reward-function object / caller-owned array must equal environments with components of their own; configurations of one class driven one after the other in one process (both orders) must equal each configuration alone in a fresh interpreter; int32 actions where the spec declares another integer dtype.",
        design_ref="§4 C02", technique="explicit-state exploration + exhaustive call-history enumeration, cross-checked across program transformations",
        note=NOTE_COMMON + "disable_jit, pmap, gradients and other backends are out of scope; float leaves compared with rtol 1e-5."),
    C03=dict(
        text="Every reset, every edge and two further steps after every terminal state of the explored graphs are checked for the FIRST/MID/LAST protocol and reward/discount sanity; multi-agent shapes included. Exhaustive over all action sequences of the tiny configurations.",
        design_ref="§4 C03", technique="explicit-state BFS with post-terminal expansion + protocol monitor",
        note=NOTE_COMMON + "LBF truncation accepted only at step_count >= time_limit with food left."),
    C04=dict(
        text="For the 21 masked environments, every non-terminal state of the explored graphs (tiny, non-square, multi-agent, injected instance families; default sizes in mode B) is compared entry by entry with the legal set computed by an independent statement of the rules, and the environment's own reaction to every action is compared with the mask.",
        design_ref="§4 C04", technique="explicit-state BFS over all actions + reference legality oracle on every state and mask entry",
        note=NOTE_REF + "MMST legality is stated for unfinished agents only; PacMan's no-op entry is excluded; MultiCVRP's alphabet is the mask's index domain."),
    C05=dict(
        text="Every (state, illegal action) pair of the explored graphs is checked against the documented effect: terminate-on-invalid environments must end with the documented reward and, where promised, an untouched problem state; ignore-invalid environments must continue with nothing moved, placed, merged, eaten or spawned.",
        design_ref="§4 C05", technique="explicit-state BFS over all actions; every illegal edge judged by the reference model",
        note=NOTE_REF),
    C06=dict(
        text="All mask-respecting action sequences of the tiny instances (closed graphs) and mode-B episodes of default size are explored for the 11 CO environments; hard constraints are recomputed from raw state arrays after every step and completion-terminated states must encode a complete feasible solution.",
        design_ref="§4 C06", technique="explicit-state BFS restricted to masked-in actions + constraint monitor",
        note=NOTE_REF),
    C07=dict(
        text="All in-spec action sequences (legal or not) of tiny, non-square and multi-agent configurations of the 11 grid/game environments are explored; physical-consistency invariants are evaluated on every state from which the episode continues and conservation laws on every such edge.",
        design_ref="§4 C07", technique="explicit-state BFS over all actions + invariant/conservation monitor",
        note=NOTE_REF),
    C08=dict(
        text="On the DAG of all mask-respecting action sequences the accumulated return is stored per state, must be path-independent and must equal the documented objective recomputed in float64 from the terminal state (or rewards must telescope a potential), for both reward functions where offered — which decides return == objective for every path at once and dense == sparse.",
        design_ref="§4 C08", technique="explicit-state BFS over legal play with per-node return accumulation / edge-local potential telescoping",
        note=NOTE_REF + "Float tolerance 1e-4 relative."),
    C09=dict(
        text="Every explored (state, action) pair of the rule-defined environments is replayed in an independent NumPy model of the rules and compared field by field (successor, reward, termination).",
        design_ref="§4 C09", technique="explicit-state BFS over all actions + reference step model on every edge",
        note=NOTE_REF),
    C10=dict(
        text="Every shipped generator x a list of size parameters (minimum, odd/even, non-square, default) x the key window PRNGKey(0..K-1) is run through jit(vmap) and every produced instance is validated by a NumPy validator of the advertised invariants (connectivity, solvability, tiling, counts, ranges, key dependence); both Sudoku databases are validated board by board.",
        design_ref="§4 C10", technique="bounded-exhaustive enumeration of (generator, size, key) with instance validators", engine="enumerator",
        note=NOTE_ENUM + "2^64 keys cannot be enumerated: the key window is the bound (64 quick / 2048 thorough), plus explicit regression keys."),
    C11=dict(
        text="For the 12 time-limited environments every action sequence up to the limit is explored for limits 1..12 (and by step-counter injection for long/default limits): an edge leaving step T-1 must be LAST and an earlier LAST needs an independent documented cause; horizon-only environments are closed and the longest path of their non-terminal edge graph (which must be acyclic) is compared with the structural bound; whole mode-B episodes of the default-size horizon-only configurations and MultiCVRP idle-prefix schedules reach the fixed step limit.",
        design_ref="§4 C11", technique="explicit-state BFS to depth time_limit+1 with explorer-side step numbering; horizon injection",
        note=NOTE_COMMON + "'Other reason' predicates are recomputed from child-state arrays."),
    C12=dict(
        text="Every (state, observation) pair of the explored graphs of all 23 environments is compared with the observation recomputed from the state by an independent NumPy observer (fov/sensor windows, EMS selection and normalisation, feature planes, relabelling, copied fields).",
        design_ref="§4 C12", technique="explicit-state BFS over all actions + reference observer on every state",
        note=NOTE_REF),
    C13=dict(
        text="Product exploration of AutoResetWrapper(env) against the bare env for all 23 environments, both next_obs_in_extras settings, all action sequences crossing several episode boundaries: non-terminal steps must be relayed unchanged, terminal steps must carry the terminal reward/discount/extras with the state and observation of reset(split(terminal key)), reset keys along a path must be pairwise distinct; explored paths are re-run under vmap, scan and eagerly.",
        design_ref="§4 C13", technique="explicit-state product exploration (wrapper vs bare env) through auto-resets",
        note=NOTE_COMMON),
    C14=dict(
        text="For batch sizes 1-3(4) all joint action vectors over a per-element {continue, end-episode} alphabet are enumerated to depth 3-4 so that every subset of the batch terminates on the same step somewhere (missing termination patterns fail the run); VmapWrapper is compared with per-element execution, VmapAutoResetWrapper with VmapWrapper(AutoResetWrapper), and render is checked to receive element 0.",
        design_ref="§4 C14", technique="exhaustive enumeration of joint action sequences over staggered batches, differential oracle",
        note=NOTE_COMMON),
    C15=dict(
        text="All operation sequences up to length 4-5 over {reset(), reset(seed), seed(), step(a0), step(a1)} on the gym adapter and up to 5-7 over {reset, step} on the dm_env adapter are run against a pure reference that drives the native API with the documented key schedule; every observation is tested for membership in the converted space/spec; every member of each converted action space is enumerated and validated; MultiToSingleWrapper is explored edge by edge with four aggregator pairs.",
        design_ref="§4 C15", technique="stateful model checking: exhaustive call-history enumeration on the adapters vs a pure reference model", engine="enumerator",
        note=NOTE_ENUM + "One adapter object per (configuration, seed) is reset to its constructor state between histories; a subset of histories runs on fresh adapters."),
    C16=dict(
        text="A finite universe of specs (shapes, dtypes, scalar/per-element/broadcast bounds, num_values, names, nested trees, plus all specs of the 23 environments) and a value alphabet at / just inside / just outside every bound are enumerated: validate vs a reference membership test, generate_value, replace, == over all ordered pairs per kind vs a reference equivalence, pickling, and membership in converted gym spaces / dm_env specs.",
        design_ref="§4 C16", technique="bounded-exhaustive input enumeration against a NumPy reference algebra", engine="enumerator",
        note=NOTE_ENUM + "NaN is outside the value alphabet."),
    C17=dict(
        text="Every cube move (sizes 2-5, thorough 2-7) is executed on an all-distinct-sticker cube through env.step and compared with a geometric reference cube; group identities are checked on all moves and all move pairs; the 2x2x2/3x3x3 move graphs are explored breadth-first; the ENTIRE reachable space of the 2x2 and 3x3 sliding puzzles is enumerated through env.step; solved-test, encodings and reset-state solvability are checked over the explored sets and the key window.",
        design_ref="§4 C17", technique="exhaustive state-space enumeration of the puzzles' move graphs through the real step function vs a geometric reference", engine="enumerator",
        note=NOTE_ENUM),
    C18=dict(
        text="All id strings up to length 5 (6 thorough) over an 11-symbol alphabet are parsed against a reference parser; all register/make call sequences up to length 3 (4) over a 9-operation alphabet are run on the process-global registry against a dict model (saved and restored); all 25 shipped ids are instantiated twice and compared in specs and behaviour.",
        design_ref="§4 C18", technique="bounded-exhaustive string enumeration + explicit-state exploration of the registry's call histories", engine="enumerator",
        note=NOTE_ENUM + "Sokoban-v0 is made with ToyGenerator (dataset needs the network)."),
    C19=dict(
        text="All tree structures x leaf shapes x dtypes x batch sizes 1-4 (8) x all indices are enumerated for stack/slice/set, including real environment states; the equality helper is checked on all single-leaf perturbations and all ordered pairs of a leaf universe (broadcast traps, near-equal floats, dtype changes).",
        design_ref="§4 C19", technique="bounded-exhaustive input enumeration against algebraic laws", engine="enumerator",
        note=NOTE_ENUM + "NaN excluded; value-equal leaves of different dtype count as equal (np.array_equal semantics, as the statement says 'equal shape and equal elements')."),
)
READY = sorted(ALL)
CHECKS = {k: ALL[k] for k in READY}
NOT_APPLICABLE = {}
