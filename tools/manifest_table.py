"""Per-property manifest entries (only properties whose check exists are listed in CHECKS)."""
NOTE_COMMON = ("Trusted base: JAX/XLA CPU semantics, NumPy, the explorer (mc/engine.py) and the monitor code. "
               "Bounds: per-configuration reset-key window PRNGKey(0..K-1); tiny configurations are explored to closure, "
               "default-size ones to the depth listed in the evidence (closed=false). ")
CHECKS = {
    "C01": dict(
        text="Every reset and every edge (all in-spec actions, legal or not, terminal steps included) of the explored transition graphs of all 23 environments is checked against the declared observation/reward/discount specs by an independent NumPy membership test; generate_value() is a member and is stepped. Exhaustive within the stated bounds, which is what a per-input property over all action sequences needs and a sampled rollout cannot give.",
        design_ref="§4 C01", technique="explicit-state BFS over the real env.step with full action alphabet + spec-membership monitor; step-counter and position injection for boundary states",
        note=NOTE_COMMON + "Long time limits are reached by injecting the step counter (models *@horizon)."),
    "C03": dict(
        text="Every reset, every edge and two further steps after every terminal state of the explored graphs are checked for the FIRST/MID/LAST protocol and reward/discount sanity; multi-agent shapes included. Exhaustive over all action sequences of the tiny configurations.",
        design_ref="§4 C03", technique="explicit-state BFS with post-terminal expansion + protocol monitor",
        note=NOTE_COMMON + "LBF truncation accepted only at step_count >= time_limit with food left."),
    "C11": dict(
        text="For the 12 time-limited environments every action sequence up to the limit is explored for limits 1..12 (and by step-counter injection for long/default limits): an edge leaving step T-1 must be LAST and an earlier LAST needs an independent documented cause; horizon-only environments are closed and their depth compared with the structural bound.",
        design_ref="§4 C11", technique="explicit-state BFS to depth time_limit+1 with explorer-side step numbering; horizon injection",
        note=NOTE_COMMON + "'Other reason' predicates are recomputed from child-state arrays."),
}
NOT_APPLICABLE = {}
